"""C11 - semaphores and notify lists behind sync keep their guarantees under contention.

Vehicle: the schedule-indexed correspondence of C10 (same harness scheduler):
sema_llgo.go is copied from the working tree into a scratch module and compiled against
instrumented stand-ins for pthread/sync and sync/atomic (every atomic operation, Lock,
Wait, Signal, Broadcast yields to the scheduler).  The Coq model (C11/Model.v) must
predict enabled/parked sets after every step, completed calls, tickets and final
counters.  Property oracles on the real code: semaphore count, no blocked acquire with a
positive count, Cond.Wait returns only when its ticket has been notified.  Supporting
check: an end-to-end program (sync.Mutex/RWMutex/WaitGroup/Once/atomic counters)
compiled by llgo against the reference toolchain."""
import json, os, sys, collections
from concurrent.futures import ThreadPoolExecutor
import vlib
from vlib import coq_list

HERE = os.path.dirname(os.path.abspath(__file__))
sys.path.insert(0, os.path.join(os.path.dirname(HERE), "C10"))
import ccmod, shutil

H = os.path.join(HERE, "harness")

# witness schedules of *_refuted theorems, replayed on the real code on every run.
# None at present: F7 (notifyListWait) and the semaAcquire lost wake-up are repaired; their
# former schedules are Examples in coq/theories/C11/Props.v.
WITNESSES = []

SOP = {"A": "SAcq", "R": "SRel"}
NOP = {"W": "NWait", "S": "NOne", "B": "NAll"}


def coq_sched(sc):
    return coq_list(["(%d%%nat,%d%%nat)" % (a, b) for a, b in sc])


def coq_input(m, init, progs, sched):
    tab = SOP if m == "sema" else NOP
    return "(%d, %s, %s)" % (init, coq_list([coq_list([tab[c] for c in p]) for p in progs]), coq_sched(sched))


def case_term(r):
    inp = coq_input(r["m"], r["init"], r["progs"], r["sched"])
    masks = coq_list(["(%d,%d)" % (a, b) for a, b in r["masks"]])
    done = "[" + ";".join("%d%%nat" % x for x in r["done"]) + "]"
    if r["m"] == "sema":
        obs = "(%s, %s, (%d, %d))" % (masks, done, r["fin"][0], r["fin"][1])
    else:
        tk = coq_list(["[" + ";".join(str(x) for x in t) + "]" for t in r["tickets"]])
        obs = "(%s, %s, %s, (%d, %d))" % (masks, done, tk, r["fin"][0], r["fin"][1])
    ti, to = ("N * list (list sop) * sschedule", "sobservation") if r["m"] == "sema" else ("N * list (list nop) * sschedule", "nobservation")
    return "((%s : %s), (%s : %s))" % (inp, ti, obs, to)


def e2e_smoke(ck):
    """(E) supporting check: goroutines + sync.Mutex/RWMutex/WaitGroup/Once/atomic, llgo vs go"""
    import e2e
    acts = []
    L = e2e.LLGo(ck)
    if not L.ok:
        return [("log", "e2e: llgo could not be built, smoke test skipped: " + L.buildlog[-300:]), ("cov", "skipped: llgo build failed")]
    d = os.path.join(ck.work, "c11e2e")
    e2e.write_module(d, {"main.go": open(os.path.join(H, "e2e", "main.go.txt")).read()}, "c11e2e")
    rc, out = L.build(d, os.path.join(d, "prog_llgo"))
    if rc != 0:
        return [("log", "e2e: llgo build of the smoke program failed: " + out[-600:]), ("cov", "skipped: llgo could not compile the program")]
    rc2, out2 = e2e.go_build(d, os.path.join(d, "prog_go"))
    rcg, _, want = e2e.run_plain(os.path.join(d, "prog_go"))
    if rc2 != 0 or rcg != 0:
        return [("log", "e2e: reference build failed " + out2[-300:]), ("cov", "skipped: reference build failed")]
    ndiff = nrun = 0
    for i in range(3):          # the result must not depend on the OS schedule
        try:
            rc1, _, got = L.run_bin(os.path.join(d, "prog_llgo"), timeout=60)
        except Exception as ex:      # hang = watchdog
            acts.append(("viol", ("e2e-sync-smoke-hang", "llgo-compiled sync smoke program did not finish: %s" % ex, {})))
            break
        nrun += 1
        gl, wl = got.strip().split("\n"), want.strip().split("\n")
        if rc1 == 124:
            acts.append(("viol", ("e2e-sync-smoke-hang", "llgo-compiled sync smoke program did not finish within 60 s", {"stderr_tail": got[-600:]})))
            break
        if rc1 != 0 or len(gl) != len(wl):
            acts.append(("viol", ("e2e-sync-smoke-run", "llgo-compiled program exit %d, %d lines (go: %d)" % (rc1, len(gl), len(wl)), {"stderr_tail": got[-600:]})))
            break
        for a, b in zip(gl, wl):
            if a != b:
                ndiff += 1
                acts.append(("viol", ("e2e-sync-" + b.split(" ")[0], "llgo prints %r, go prints %r" % (a, b), {"llgo": a, "go": b})))
    acts.append(("cov", "%d runs x %d lines compared, %d differ" % (nrun, len(want.strip().split("\n")), ndiff)))
    acts.append(("count", nrun * len(want.strip().split("\n"))))
    return acts


def run(ck):
    ck.trusted = ["Coq 8.16.1 kernel (coqc, vm_compute)",
                  "harness scheduler props/C10/harness/vsched + stand-ins psync / patomic (atomics are indivisible scheduling points)",
                  "hand-written model coq/theories/C11/Model.v tied to sema_llgo.go by the schedule-indexed correspondence",
                  "reference go toolchain for the end-to-end smoke program"]
    ck.assumptions = ["pthread mutex/condition variables behave as Mesa monitors; Signal wakes exactly one waiter if there is one",
                      "sync/atomic operations are indivisible and sequentially consistent (they are LLVM atomics in llgo; their lowering is not checked here)",
                      "one semaphore address / one notify list per execution; the stdlib clients (Mutex, RWMutex, WaitGroup, Once, Cond) are Go's unchanged code and appear only in the end-to-end smoke test"]
    ck.coq_build("C11")
    ck.coq_props("LLGoV.C11.Props", "theories/C11/Props.v")
    ck.phase("coq built")

    ex = ThreadPoolExecutor(1)
    fut = ex.submit(e2e_smoke, ck)

    d = ccmod.make_module(ck)
    os.makedirs(os.path.join(d, "patomic"))
    shutil.copy(os.path.join(H, "patomic", "atomic.go"), os.path.join(d, "patomic", "atomic.go"))
    ccmod.add_pkg(d, "rt11", os.path.join(H, "rt11"), ["runtime/internal/lib/runtime/sema_llgo.go"], drop_linkname=True)
    win = os.path.join(ck.work, "witness.json")
    json.dump([{"Name": n, "M": m, "Init": i, "Progs": p, "Sched": sc} for n, m, i, p, sc in WITNESSES], open(win, "w"))
    out = os.path.join(ck.work, "c11.jsonl")
    nrand = {"quick": 1000, "thorough": 20000}[ck.tier]
    rc, log = ccmod.go_test(ck, d, "rt11", {"VERIF_OUT": out, "VERIF_N": str(nrand), "VERIF_IN": win},
                            timeout=240 if ck.tier == "quick" else 1700)
    ck.phase("harness ran")
    if rc != 0 or not os.path.exists(out):
        ck.correspondence_broken("harness:sema_llgo.go", log[-2000:])
        return ck.finish()
    runs, viols, wit, stats = [], [], [], {}
    for line in open(out):
        r = json.loads(line)
        k = r["kind"]
        if k == "run":
            runs.append(r)
        elif k == "viol":
            viols.append(r)
        elif k == "witness":
            wit.append(r)
        elif k == "stat":
            stats.update(r)
    for v in viols:
        ck.violation(v["key"], v.get("what", ""), {k: v[k] for k in ("m", "init", "progs", "sched", "end", "history")})
    for w in wit:
        if not w["replayed"] or not w["flagged"]:
            ck.log("witness %s no longer reproduces on the real code (defect repaired?)" % w["name"])
    body = "From LLGoV Require Import Lib.Common C11.Model C11.Proofs.\nLocal Open Scope N_scope.\n"
    for name, m, init, progs, sched in WITNESSES:
        body += "Goal %s = %s. Proof. reflexivity. Qed.\n" % (name, coq_input(m, init, progs, sched))
    rcw, outw = ck.coq_run(body, "c11_witness")
    if rcw != 0:
        ck.correspondence_broken("C11.witnesses", outw[-800:])

    hdr = "From LLGoV Require Import Lib.Common C11.Model.\nLocal Open Scope N_scope.\n"
    for m, fobs, feq in (("sema", "s_observe", "sobs_eqb"), ("notify", "n_observe", "nobs_eqb")):
        sub = [r for r in runs if r["m"] == m]
        bad = ck.coq_mismatches(hdr, [case_term(r) for r in sub], fobs, feq, "c11_" + m, shard=250)
        if bad:
            b = sub[bad[0]]
            ck.correspondence_broken("C11.Model/" + m, {"n_mismatch": len(bad), "first": {
                k: b[k] for k in ("m", "init", "progs", "sched", "masks", "done", "fin", "end")}})
    ck.phase("model compared")

    for kind, arg in fut.result():
        if kind == "viol":
            ck.violation(*arg)
        elif kind == "log":
            ck.log(arg)
        elif kind == "cov":
            ck.cov["e2e_smoke"] = arg
        elif kind == "count":
            ck.cov["evaluations"] += arg
    ck.phase("e2e smoke done")

    distinct = len({(r["m"], r["init"], tuple(r["progs"]), json.dumps(r["sched"])) for r in runs if len(r["sched"]) > 4})
    samples = [{k: r[k] for k in ("m", "init", "progs", "sched", "done", "fin", "end")} for r in runs[len(runs) // 3: len(runs) // 3 + 2]]
    ck.add_cov(evaluations=len(runs), nontrivial=distinct, samples=samples, classes=stats.get("classes", {}))
    ck.cov["steps_executed_on_real_code"] = sum(len(r["sched"]) for r in runs)
    ck.cov["witness_replays"] = [{"name": w["name"], "end": w["end"], "flagged": w["flagged"]} for w in wit]
    ck.cov["rule"] = ("explicit schedules executed on the real sema_llgo.go (goroutines gated at every atomic operation, Lock, Wait, Signal, "
                      "Broadcast; Signal's choice of waiter is part of the schedule): DFS with state pruning over the interleavings of the "
                      "systematic configurations (complete in the thorough tier, the first 20-80 DFS paths per configuration in the quick tier) (semaphore: 2 threads x <=2 ops, 3 x 1, initial value 0/1; notify list: 2 x <=2, 3 x 1, counters "
                      "starting at 0 and at 2^32-1) + random schedules of random configurations (2-4 threads, 1-3 ops, counters near 2^32); "
                      "each executed schedule is one case for the model and for the property oracles")
    return ck.finish()
