// Stand-in for github.com/goplus/llgo/runtime/internal/lib/sync/atomic as far as
// sema_llgo.go uses it.  In llgo these are compiler intrinsics (llgo.atomic*); here
// every operation is a scheduling point of the harness scheduler and is then carried
// out in one piece (only one thread runs at a time).  Not part of the repository.
package atomic

import "github.com/goplus/llgo/runtime/xverif/cc/vsched"

// LastCASFailed[thread]: the thread's latest CompareAndSwap failed and it has not
// loaded since (lets the harness name the lost-wake-up defect of semaAcquire narrowly).
var LastCASFailed [64]bool

func mark(failed bool) {
	if t := vsched.Cur; t != nil && t.ID < len(LastCASFailed) {
		LastCASFailed[t.ID] = failed
	}
}

func LoadUint32(addr *uint32) uint32 {
	vsched.Atomic()
	mark(false)
	return *addr
}

func StoreUint32(addr *uint32, val uint32) {
	vsched.Atomic()
	*addr = val
}

func AddUint32(addr *uint32, delta uint32) uint32 {
	vsched.Atomic()
	*addr += delta
	return *addr
}

func CompareAndSwapUint32(addr *uint32, old, new uint32) bool {
	vsched.Atomic()
	if *addr == old {
		*addr = new
		return true
	}
	mark(true)
	return false
}
