// C11 harness: executes llgo's own sema_llgo.go (semaAcquire/semaRelease and the
// notify list behind sync.Cond), copied from the working tree and compiled against
// the instrumented pthread/sync and sync/atomic stand-ins, under explicit schedules.
// One record per executed schedule goes to $VERIF_OUT; the property oracles
// (semaphore count / no lost wake-up; Cond.Wait returns only when notified) are
// evaluated here on the real code.  Not part of the repository.
package rt11

import (
	"encoding/json"
	"fmt"
	"math/rand"
	"os"
	"strconv"
	"strings"
	"testing"

	patomic "github.com/goplus/llgo/runtime/xverif/cc/patomic"
	"github.com/goplus/llgo/runtime/xverif/cc/vsched"
)

// machine "sema":   ops A (semaAcquire) R (semaRelease)
// machine "notify": ops W (t := notifyListAdd; notifyListWait(t)) S (NotifyOne) B (NotifyAll)
type Config struct {
	M     string
	Init  uint32 // sema: initial value; notify: initial value of wait and notify (wrap tests)
	Progs []string
}

type opRec struct {
	th, idx    int
	k          byte
	inv, ret   int
	first      int // logical time of the first step of the operation (the Add of W / R)
	ticket     uint32
	notifyAtRet uint32
}

type run struct {
	cfg    Config
	sched  [][2]int
	masks  [][2]uint64
	ops    [][]*opRec
	end    string
	s      *vsched.Sched
	stepNo int
	spur   int
	addr   *uint32
	nl     *notifyList
	relStarted, acqDone int
	countBad   bool
	parkedAfterFailedCAS bool // some semaAcquire went to sleep right after losing a CompareAndSwap race
}

var keep []any // addresses are map keys in the code under test: never reuse one

func start(cfg Config) *run {
	r := &run{cfg: cfg}
	r.s = vsched.New()
	patomic.LastCASFailed = [64]bool{}
	r.addr = new(uint32)
	*r.addr = cfg.Init
	r.nl = &notifyList{wait: cfg.Init, notify: cfg.Init}
	keep = append(keep, r.addr, r.nl)
	r.ops = make([][]*opRec, len(cfg.Progs))
	for ti := range cfg.Progs {
		ti := ti
		r.s.Go(func() {
			for i := 0; i < len(cfg.Progs[ti]); i++ {
				rec := &opRec{th: ti, idx: i, k: cfg.Progs[ti][i], inv: 2*r.stepNo + 1, ret: -1, first: -1}
				r.ops[ti] = append(r.ops[ti], rec)
				switch rec.k {
				case 'A':
					semaAcquire(r.addr)
					r.acqDone++
				case 'R':
					semaRelease(r.addr)
				case 'W':
					rec.ticket = sync_runtime_notifyListAdd(r.nl)
					sync_runtime_notifyListWait(r.nl, rec.ticket)
					rec.notifyAtRet = r.nl.notify
				case 'S':
					sync_runtime_notifyListNotifyOne(r.nl)
				case 'B':
					sync_runtime_notifyListNotifyAll(r.nl)
				}
				rec.ret = 2 * r.stepNo
			}
		})
	}
	for ti := range cfg.Progs {
		r.s.Step(ti, 0)
	}
	r.s.Steps = 0
	r.masks = append(r.masks, [2]uint64{r.s.EnabledMask(), r.s.ParkedMask()})
	return r
}

func (r *run) cur(tid int) *opRec {
	if n := len(r.ops[tid]); n > 0 && r.ops[tid][n-1].ret < 0 {
		return r.ops[tid][n-1]
	}
	return nil
}

func (r *run) step(tid, choice int) bool {
	r.stepNo++
	t := r.s.Threads[tid]
	if t.Kind == vsched.KParked {
		r.spur++
	}
	o := r.cur(tid)
	if !r.s.Step(tid, choice) {
		r.stepNo--
		return false
	}
	if o != nil && o.first < 0 {
		o.first = 2 * r.stepNo
		if o.k == 'R' {
			r.relStarted++
		}
	}
	if t.Kind == vsched.KParked && tid < len(patomic.LastCASFailed) && patomic.LastCASFailed[tid] {
		r.parkedAfterFailedCAS = true
	}
	if uint64(r.acqDone) > uint64(r.cfg.Init)+uint64(r.relStarted) {
		r.countBad = true
	}
	r.sched = append(r.sched, [2]int{tid, choice})
	r.masks = append(r.masks, [2]uint64{r.s.EnabledMask(), r.s.ParkedMask()})
	return true
}

func (r *run) waiters() uint32 {
	if st := semaMap[uintptrOf(r.addr)]; st != nil {
		return st.waiters
	}
	return 0
}

func (r *run) finish(end string) {
	r.end = end
	if end == "" {
		if r.s.AllDone() {
			r.end = "done"
		} else {
			r.end = "deadlock"
		}
	}
	r.s.Kill()
}

var out *json.Encoder
var nRuns, nViol int
var classes = map[string]int{}

func (r *run) emit() {
	nRuns++
	done := make([]int, len(r.ops))
	tickets := make([][]uint32, len(r.ops))
	for i, os := range r.ops {
		tickets[i] = []uint32{}
		for _, o := range os {
			if o.ret >= 0 {
				done[i]++
			}
			if o.k == 'W' && o.first >= 0 {
				tickets[i] = append(tickets[i], o.ticket)
			}
		}
	}
	classes[fmt.Sprintf("%s/threads%d/%s", r.cfg.M, len(r.cfg.Progs), r.end)]++
	rec := map[string]any{"kind": "run", "m": r.cfg.M, "init": r.cfg.Init, "progs": r.cfg.Progs, "sched": r.sched,
		"masks": r.masks, "done": done, "end": r.end, "faults": r.s.Faults}
	if r.cfg.M == "sema" {
		rec["fin"] = []uint32{*r.addr, r.waiters()}
	} else {
		rec["fin"] = []uint32{r.nl.wait, r.nl.notify}
		rec["tickets"] = tickets
	}
	out.Encode(rec)
}

func viol(key, what string, r *run) {
	nViol++
	var h []string
	for ti, os := range r.ops {
		for _, o := range os {
			s := fmt.Sprintf("t%d.%d %c", ti, o.idx, o.k)
			if o.k == 'W' {
				s += fmt.Sprintf(" ticket=%d", o.ticket)
			}
			if o.ret < 0 {
				s += fmt.Sprintf(" invoked@%d PENDING", o.inv)
			} else {
				s += fmt.Sprintf(" [%d,%d]", o.inv, o.ret)
				if o.k == 'W' {
					s += fmt.Sprintf(" notify-at-return=%d", o.notifyAtRet)
				}
			}
			h = append(h, s)
		}
	}
	out.Encode(map[string]any{"kind": "viol", "key": key, "what": what, "m": r.cfg.M, "init": r.cfg.Init,
		"progs": strings.Join(r.cfg.Progs, " || "), "sched": r.sched, "end": r.end, "history": h})
}

// less is Go's wrap-aware ticket order (runtime/sema.go)
func less(a, b uint32) bool { return int32(a-b) < 0 }

func (r *run) oracle() {
	if r.end != "done" && r.end != "deadlock" {
		return
	}
	for _, f := range r.s.Faults {
		viol("sync-misuse-"+f, "the code under test misused a mutex/condition variable", r)
	}
	if r.cfg.M == "sema" {
		if r.countBad {
			viol("sema-count", "more semaAcquire calls completed than initial value + releases started", r)
		}
		if r.end == "deadlock" && *r.addr != 0 {
			if r.parkedAfterFailedCAS {
				viol("sema-acquire-parks-after-failed-cas-while-count-positive", fmt.Sprintf("no thread can run, a semaAcquire is blocked with semaphore value %d, and in this execution a semaAcquire went to sleep right after losing a CompareAndSwap race (without re-reading the count; it may also have absorbed a Signal meant for another waiter)", *r.addr), r)
			} else {
				viol("sema-lost-wakeup", fmt.Sprintf("no thread can run, a semaAcquire is blocked, but the semaphore value is %d", *r.addr), r)
			}
		}
		if r.end == "done" && *r.addr+uint32(r.acqDone) != r.cfg.Init+uint32(r.relStarted) {
			viol("sema-value", "final value != initial + releases - acquires", r)
		}
		return
	}
	// notify list
	type nop struct{ inv, ret int; all bool; used bool }
	var ns []*nop
	for _, os := range r.ops {
		for _, o := range os {
			if o.k == 'S' || o.k == 'B' {
				ret := o.ret
				if ret < 0 {
					ret = 1 << 30
				}
				ns = append(ns, &nop{inv: o.inv, ret: ret, all: o.k == 'B'})
			}
		}
	}
	var need []*opRec // returned waiters that need their own NotifyOne
	for _, os := range r.ops {
		for _, o := range os {
			if o.k != 'W' {
				continue
			}
			if o.ret >= 0 {
				// Go's own criterion (runtime.notifyListWait): ticket t is notified iff less(t, notify)
				if !less(o.ticket, o.notifyAtRet) {
					viol("notify-wait-returns-with-ticket-not-notified",
						"notifyListWait returned although its ticket is not below l.notify: Cond.Wait returns without Signal/Broadcast", r)
					continue
				}
				covered := false
				for _, n := range ns {
					if n.all && n.inv < o.ret && n.ret > o.first {
						covered = true
					}
				}
				if !covered {
					need = append(need, o)
				}
			} else if r.end == "deadlock" && o.first >= 0 {
				if less(o.ticket, r.nl.notify) {
					viol("notify-lost-wakeup", "a waiter whose ticket has been notified stays blocked", r)
				}
				for _, n := range ns {
					if n.all && n.ret < 1<<30 && n.inv > o.first {
						viol("notify-all-left-earlier-waiter-blocked", "a NotifyAll invoked after the waiter took its ticket has returned, the waiter is still blocked", r)
						break
					}
				}
			}
		}
	}
	// each remaining returned waiter needs a distinct NotifyOne that can lie after its Add
	var match func(i int) bool
	match = func(i int) bool {
		if i == len(need) {
			return true
		}
		for _, n := range ns {
			if !n.all && !n.used && n.inv < need[i].ret && n.ret > need[i].first {
				n.used = true
				if match(i + 1) {
					return true
				}
				n.used = false
			}
		}
		return false
	}
	if !match(0) {
		viol("cond-wait-returned-without-notify", "more waiters returned than Signal/Broadcast calls can account for", r)
	}
}

// ---------------------------------------------------------------- exploration

func (r *run) key() string {
	var b strings.Builder
	if r.cfg.M == "sema" {
		fmt.Fprintf(&b, "%d,%d,%d|", *r.addr, r.waiters(), r.spur)
	} else {
		fmt.Fprintf(&b, "%d,%d,%d|", r.nl.wait, r.nl.notify, r.spur)
	}
	for ti, t := range r.s.Threads {
		held := 0
		if t.M != nil && t.M.Owner == t {
			held = 1
		}
		fmt.Fprintf(&b, "|%d:%d:%d:%d:", ti, t.Kind, t.Site, held)
		for _, o := range r.ops[ti] {
			fmt.Fprintf(&b, "%c%d,%v,%v,%d;", o.k, o.ticket, o.ret >= 0, o.first >= 0, o.notifyAtRet)
		}
	}
	// which thread owns the state mutex matters for enabledness
	for ti, t := range r.s.Threads {
		if t.Kind == vsched.KSignal || t.Kind == vsched.KBcast || t.Kind == vsched.KAtomic {
			fmt.Fprintf(&b, "h%d", ti)
		}
	}
	return b.String()
}

// alternatives at the current state: (tid, choice); a Signal offers one alternative per waiter
func (r *run) alts(maxSpur int) [][2]int {
	var a [][2]int
	en, pk := r.s.EnabledMask(), r.s.ParkedMask()
	for i, t := range r.s.Threads {
		if en&(1<<uint(i)) == 0 {
			continue
		}
		n := 1
		if t.Kind == vsched.KSignal && len(t.C.Waiters) > 1 {
			n = len(t.C.Waiters)
		}
		for c := 0; c < n; c++ {
			a = append(a, [2]int{i, c})
		}
	}
	if r.spur < maxSpur {
		for i := range r.s.Threads {
			if pk&(1<<uint(i)) != 0 {
				a = append(a, [2]int{i, 0})
			}
		}
	}
	return a
}

func dfs(cfg Config, maxSpur, maxRuns int) int {
	visited := map[string]bool{}
	stack := [][][2]int{{}}
	runs := 0
	for len(stack) > 0 && runs < maxRuns {
		p := stack[len(stack)-1]
		stack = stack[:len(stack)-1]
		r := start(cfg)
		for _, st := range p {
			if !r.step(st[0], st[1]) {
				panic(fmt.Sprintf("replay diverged: %v %v", cfg, p))
			}
		}
		end := ""
		for {
			k := r.key()
			if visited[k] {
				end = "pruned"
				break
			}
			visited[k] = true
			a := r.alts(maxSpur)
			if r.s.EnabledMask() == 0 {
				for _, t := range a {
					stack = append(stack, append(append([][2]int{}, r.sched...), t))
				}
				break
			}
			for _, t := range a[1:] {
				stack = append(stack, append(append([][2]int{}, r.sched...), t))
			}
			r.step(a[0][0], a[0][1])
			if len(r.sched) > 300 {
				end = "cut"
				break
			}
		}
		r.finish(end)
		r.emit()
		r.oracle()
		runs++
	}
	return runs
}

// coarse enumerates the interleavings at OPERATION granularity: pick an enabled
// thread and let it run until its current call returns or it cannot go on (parked, or
// waiting for a mutex); repeat.  All orders are tried, and both choices of the waiter
// a Signal wakes.  These are the "back-to-back" histories (several sleepers, then
// several releases/notifies in a row) that a truncated fine-grained DFS reaches late.
func coarse(cfg Config) int {
	n := 0
	var rec func(prefix [][2]int)
	rec = func(prefix [][2]int) {
		r := start(cfg)
		for _, st := range prefix {
			if !r.step(st[0], st[1]) {
				panic(fmt.Sprintf("coarse replay diverged: %v %v", cfg, prefix))
			}
		}
		if r.s.EnabledMask() == 0 || len(prefix) > 300 {
			end := ""
			if r.s.EnabledMask() != 0 {
				end = "cut"
			}
			r.finish(end)
			r.emit()
			r.oracle()
			n++
			return
		}
		en := r.s.EnabledMask()
		var exts [][][2]int
		for ti := range r.s.Threads {
			if en&(1<<uint(ti)) == 0 {
				continue
			}
			for choice := 0; choice < 2; choice++ {
				// run thread ti to the end of its current operation
				r2 := start(cfg)
				for _, st := range prefix {
					r2.step(st[0], st[1])
				}
				doneBefore := 0
				for _, o := range r2.ops[ti] {
					if o.ret >= 0 {
						doneBefore++
					}
				}
				usedChoice := false
				for k := 0; k < 60; k++ {
					t := r2.s.Threads[ti]
					if !r2.s.Enabled(t) {
						break
					}
					c := 0
					if t.Kind == vsched.KSignal && len(t.C.Waiters) > 1 {
						c = choice
						usedChoice = true
					}
					r2.step(ti, c)
					d := 0
					for _, o := range r2.ops[ti] {
						if o.ret >= 0 {
							d++
						}
					}
					if d > doneBefore {
						break
					}
				}
				ext := append([][2]int{}, r2.sched...)
				r2.finish("cut")
				if choice == 1 && !usedChoice {
					continue // no Signal with several waiters on this path: same as choice 0
				}
				exts = append(exts, ext)
			}
		}
		r.finish("cut")
		for _, e := range exts {
			rec(e)
		}
	}
	rec(nil)
	return n
}

func randomRun(cfg Config, rng *rand.Rand, maxSpur int) *run {
	r := start(cfg)
	end := ""
	for r.s.EnabledMask() != 0 {
		a := r.alts(0)
		st := a[rng.Intn(len(a))]
		if pk := r.s.ParkedMask(); pk != 0 && r.spur < maxSpur && rng.Intn(8) == 0 {
			var b []int
			for i := range r.s.Threads {
				if pk&(1<<uint(i)) != 0 {
					b = append(b, i)
				}
			}
			st = [2]int{b[rng.Intn(len(b))], 0}
		}
		r.step(st[0], st[1])
		if len(r.sched) > 400 {
			end = "cut"
			break
		}
	}
	r.finish(end)
	return r
}

func randomConfig(rng *rand.Rand) Config {
	var cfg Config
	nt := 2 + rng.Intn(3)
	maxOps := 3
	if nt == 4 {
		maxOps = 2
	}
	if rng.Intn(2) == 0 {
		cfg.M = "sema"
		cfg.Init = uint32(rng.Intn(3))
		if rng.Intn(10) == 0 {
			cfg.Init = 0xffffffff - uint32(rng.Intn(2)) // wrap-around of the counter
		}
		for t := 0; t < nt; t++ {
			n := 1 + rng.Intn(maxOps)
			p := make([]byte, n)
			for i := range p {
				p[i] = "AAR"[rng.Intn(3)]
				if rng.Intn(3) == 0 && i > 0 && p[i-1] == 'A' {
					p[i] = 'R' // mutex-like use
				}
			}
			cfg.Progs = append(cfg.Progs, string(p))
		}
	} else {
		cfg.M = "notify"
		if rng.Intn(6) == 0 {
			cfg.Init = 0xffffffff - uint32(rng.Intn(3)) // tickets wrap around 2^32
		}
		for t := 0; t < nt; t++ {
			n := 1 + rng.Intn(maxOps)
			p := make([]byte, n)
			for i := range p {
				p[i] = "WWWSSB"[rng.Intn(6)]
			}
			cfg.Progs = append(cfg.Progs, string(p))
		}
	}
	return cfg
}

func progsOf(n int, alpha string) []string {
	if n == 0 {
		return []string{""}
	}
	var res []string
	for _, p := range progsOf(n-1, alpha) {
		for i := 0; i < len(alpha); i++ {
			res = append(res, p+alpha[i:i+1])
		}
	}
	return res
}

func systematic(m string, nThreads, maxOps int, alpha string, inits []uint32, f func(Config)) {
	var all []string
	for n := 1; n <= maxOps; n++ {
		all = append(all, progsOf(n, alpha)...)
	}
	var rec func(from int, cur []string)
	rec = func(from int, cur []string) {
		if len(cur) == nThreads {
			for _, in := range inits {
				f(Config{M: m, Init: in, Progs: append([]string{}, cur...)})
			}
			return
		}
		for i := from; i < len(all); i++ {
			rec(i, append(append([]string{}, cur...), all[i]))
		}
	}
	rec(0, nil)
}

type replayIn struct {
	Name  string
	M     string
	Init  uint32
	Progs []string
	Sched [][2]int
}

func TestVerif(t *testing.T) {
	f, err := os.Create(os.Getenv("VERIF_OUT"))
	if err != nil {
		t.Fatal(err)
	}
	defer f.Close()
	out = json.NewEncoder(f)
	seed, _ := strconv.ParseInt(os.Getenv("VERIF_SEED"), 10, 64)
	rng := rand.New(rand.NewSource(seed*7919 + 11))
	tier := os.Getenv("VERIF_TIER")
	nRandom, _ := strconv.Atoi(os.Getenv("VERIF_N"))

	if p := os.Getenv("VERIF_IN"); p != "" {
		var ins []replayIn
		b, _ := os.ReadFile(p)
		if err := json.Unmarshal(b, &ins); err != nil {
			t.Fatal(err)
		}
		for _, in := range ins {
			r := start(Config{M: in.M, Init: in.Init, Progs: in.Progs})
			okAll := true
			for _, st := range in.Sched {
				if !r.step(st[0], st[1]) {
					okAll = false
					break
				}
			}
			end := ""
			if r.s.EnabledMask() != 0 {
				end = "cut"
			}
			r.finish(end)
			r.emit()
			nv := nViol
			r.oracle()
			out.Encode(map[string]any{"kind": "witness", "name": in.Name, "replayed": okAll, "end": r.end, "flagged": nViol > nv})
		}
	}

	total := 0
	if tier == "thorough" {
		systematic("sema", 2, 2, "AR", []uint32{0, 1, 2}, func(c Config) { total += dfs(c, 1, 3000) })
		systematic("sema", 3, 1, "AR", []uint32{0, 1, 2}, func(c Config) { total += dfs(c, 1, 3000) })
		systematic("notify", 2, 2, "WSB", []uint32{0, 0xffffffff}, func(c Config) { total += dfs(c, 1, 3000) })
		systematic("notify", 3, 1, "WSB", []uint32{0, 0xffffffff}, func(c Config) { total += dfs(c, 1, 3000) })
		systematic("sema", 2, 3, "AR", []uint32{0, 1}, func(c Config) { total += dfs(c, 0, 200) })
		systematic("sema", 3, 2, "AR", []uint32{0, 1}, func(c Config) { total += dfs(c, 0, 200) })
		systematic("notify", 2, 3, "WSB", []uint32{0}, func(c Config) { total += dfs(c, 0, 60) })
		systematic("notify", 3, 2, "WSB", []uint32{0}, func(c Config) { total += dfs(c, 0, 60) })
	} else {
		systematic("sema", 2, 2, "AR", []uint32{0, 1}, func(c Config) { total += dfs(c, 0, 40) })
		systematic("sema", 3, 1, "AR", []uint32{0, 1}, func(c Config) { total += dfs(c, 1, 80) })
		systematic("notify", 2, 2, "WSB", []uint32{0}, func(c Config) { total += dfs(c, 0, 20) })
		systematic("notify", 3, 1, "WSB", []uint32{0, 0xffffffff}, func(c Config) { total += dfs(c, 1, 40) })
	}
	// always explored, at operation granularity: several sleepers and several
	// releases / notifications in a row (every sleeper must be woken)
	ncoarse := 0
	for _, c := range []Config{
		{M: "sema", Init: 0, Progs: []string{"A", "A", "RR"}},
		{M: "sema", Init: 0, Progs: []string{"A", "A", "R", "R"}},
		{M: "sema", Init: 1, Progs: []string{"AR", "AR", "AR"}},
		{M: "notify", Init: 0, Progs: []string{"W", "W", "SS"}},
		{M: "notify", Init: 0, Progs: []string{"W", "W", "S", "S"}},
		{M: "notify", Init: 0, Progs: []string{"W", "W", "W", "B"}},
		{M: "notify", Init: 0xffffffff, Progs: []string{"W", "W", "SB"}},
	} {
		k := coarse(c)
		classes[fmt.Sprintf("coarse/%s/%v", c.M, c.Progs)] += k
		ncoarse += k
	}
	if tier == "thorough" {
		ncoarse += coarse(Config{M: "sema", Init: 0, Progs: []string{"A", "A", "A", "RRR"}})
	}
	out.Encode(map[string]any{"kind": "stat", "dfs_runs": total, "coarse_runs": ncoarse})
	for i := 0; i < nRandom; i++ {
		r := randomRun(randomConfig(rng), rng, 2)
		r.emit()
		r.oracle()
	}
	out.Encode(map[string]any{"kind": "stat", "runs": nRuns, "viol_records": nViol, "classes": classes})
}
