// Stand-ins for the identifiers sema_llgo.go takes from other files of
// runtime/internal/lib/runtime.  Not part of the repository.
package rt11

import "unsafe"

func runtimeNano() int64 { return 0 }
func throw(s string)     { panic("throw: " + s) }
func fatal(s string)     { panic("fatal: " + s) }

func uintptrOf(p *uint32) uintptr { return uintptr(unsafe.Pointer(p)) }
