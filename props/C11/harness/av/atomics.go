// Stand-ins for the pointer atomics of package sync/atomic that value.go uses (compiler
// intrinsics in llgo): every operation is a scheduling point of the harness scheduler
// and is then carried out in one piece.  Not part of the repository.
package av

import (
	"unsafe"

	"github.com/goplus/llgo/runtime/xverif/cc/vsched"
)

func LoadPointer(addr *unsafe.Pointer) unsafe.Pointer {
	vsched.Atomic()
	return *addr
}

func StorePointer(addr *unsafe.Pointer, val unsafe.Pointer) {
	vsched.Atomic()
	*addr = val
}

func SwapPointer(addr *unsafe.Pointer, new unsafe.Pointer) (old unsafe.Pointer) {
	vsched.Atomic()
	old = *addr
	*addr = new
	return
}

func CompareAndSwapPointer(addr *unsafe.Pointer, old, new unsafe.Pointer) bool {
	vsched.Atomic()
	if *addr == old {
		*addr = new
		return true
	}
	return false
}
