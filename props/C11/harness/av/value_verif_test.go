// C11 harness, atomic.Value: executes llgo's own sync/atomic/value.go (copied from the
// working tree) under explicit schedules, every pointer atomic a scheduling point.
// Programs: Store(&cell[k]) and Load.  Oracle: a Load returns nil or a fully published
// value (non-nil type word AND non-nil data word, the data one of the stored pointers).
// One record per executed schedule goes to $VERIF_OUT.  Not part of the repository.
package av

import (
	"encoding/json"
	"fmt"
	"math/rand"
	"os"
	"strconv"
	"strings"
	"testing"
	"unsafe"

	"github.com/goplus/llgo/runtime/xverif/cc/vsched"
)

// program letters: '1'..'9' = Store(&cells[k]), 'L' = Load
type Config struct{ Progs []string }

type run struct {
	cfg   Config
	sched []int
	masks []uint64
	res   [][]int // per thread, per finished call: Store -> -1; Load -> 0 nil, k value, -2 half published, -3 foreign
	s     *vsched.Sched
	v     *Value
	cells []int64
	end   string
	half  bool
}

func (r *run) which(p unsafe.Pointer) int {
	for k := range r.cells {
		if p == unsafe.Pointer(&r.cells[k]) {
			return k
		}
	}
	return -3
}

func start(cfg Config) *run {
	r := &run{cfg: cfg, v: new(Value), cells: make([]int64, 10)}
	r.s = vsched.New()
	r.res = make([][]int, len(cfg.Progs))
	for ti := range cfg.Progs {
		ti := ti
		r.s.Go(func() {
			for _, c := range cfg.Progs[ti] {
				if c == 'L' {
					x := r.v.Load()
					w := (*efaceWords)(unsafe.Pointer(&x))
					switch {
					case w.typ == nil && w.data == nil:
						r.res[ti] = append(r.res[ti], 0)
					case w.typ != nil && w.data == nil:
						r.res[ti] = append(r.res[ti], -2)
						r.half = true
					default:
						r.res[ti] = append(r.res[ti], r.which(w.data))
					}
				} else {
					r.v.Store(&r.cells[int(c-'0')])
					r.res[ti] = append(r.res[ti], -1)
				}
			}
		})
	}
	for ti := range cfg.Progs {
		r.s.Step(ti, 0)
	}
	r.s.Steps = 0
	r.masks = append(r.masks, r.s.EnabledMask())
	return r
}

func (r *run) step(t int) bool {
	if !r.s.Step(t, 0) {
		return false
	}
	r.sched = append(r.sched, t)
	r.masks = append(r.masks, r.s.EnabledMask())
	return true
}

// the two words of the Value: typ 0 nil, 1 firstStoreInProgress, 2 a type; data: 0 nil or cell index
func (r *run) words() (int, int) {
	w := (*efaceWords)(unsafe.Pointer(r.v))
	t := 2
	if w.typ == nil {
		t = 0
	} else if w.typ == unsafe.Pointer(&firstStoreInProgress) {
		t = 1
	}
	d := 0
	if w.data != nil {
		d = r.which(w.data)
	}
	return t, d
}

func (r *run) key() string {
	var b strings.Builder
	t, d := r.words()
	fmt.Fprintf(&b, "%d,%d", t, d)
	for ti, th := range r.s.Threads {
		fmt.Fprintf(&b, "|%d:%d:%v", th.Kind, th.Site, r.res[ti])
	}
	return b.String()
}

var out *json.Encoder
var nRuns, nViol int

func (r *run) finish(end string) {
	r.end = end
	if end == "" {
		r.end = "done"
		if !r.s.AllDone() {
			r.end = "stuck"
		}
	}
	t, d := r.words()
	r.s.Kill()
	nRuns++
	out.Encode(map[string]any{"kind": "run", "m": "value", "progs": r.cfg.Progs, "sched": r.sched, "masks": r.masks,
		"res": r.res, "fin": []int{t, d}, "end": r.end})
	if r.half {
		nViol++
		out.Encode(map[string]any{"kind": "viol", "key": "atomic-value-load-half-published",
			"what": "Value.Load returned an interface with a non-nil type word and a nil data word: it raced with the first Store, which published the type before the data",
			"progs": strings.Join(r.cfg.Progs, " || "), "sched": r.sched, "end": r.end, "history": fmt.Sprint(r.res)})
	}
	for _, rs := range r.res {
		for _, x := range rs {
			if x == -3 {
				nViol++
				out.Encode(map[string]any{"kind": "viol", "key": "atomic-value-load-foreign-pointer", "what": "Value.Load returned a data word that was never stored",
					"progs": strings.Join(r.cfg.Progs, " || "), "sched": r.sched, "end": r.end, "history": fmt.Sprint(r.res)})
			}
		}
	}
	if r.end == "stuck" {
		nViol++
		out.Encode(map[string]any{"kind": "viol", "key": "atomic-value-stuck", "what": "no thread can run but a call is unfinished",
			"progs": strings.Join(r.cfg.Progs, " || "), "sched": r.sched, "end": r.end, "history": fmt.Sprint(r.res)})
	}
}

func dfs(cfg Config, maxRuns int) int {
	visited := map[string]bool{}
	stack := [][]int{{}}
	runs := 0
	for len(stack) > 0 && runs < maxRuns {
		p := stack[len(stack)-1]
		stack = stack[:len(stack)-1]
		r := start(cfg)
		for _, t := range p {
			if !r.step(t) {
				panic(fmt.Sprintf("replay diverged: %v %v", cfg, p))
			}
		}
		end := ""
		for {
			k := r.key()
			if visited[k] {
				end = "pruned"
				break
			}
			visited[k] = true
			en := r.s.EnabledMask()
			if en == 0 {
				break
			}
			var a []int
			for i := range cfg.Progs {
				if en&(1<<uint(i)) != 0 {
					a = append(a, i)
				}
			}
			for _, t := range a[1:] {
				stack = append(stack, append(append([]int{}, r.sched...), t))
			}
			r.step(a[0])
			if len(r.sched) > 200 {
				end = "cut"
				break
			}
		}
		r.finish(end)
		runs++
	}
	return runs
}

func TestVerif(t *testing.T) {
	f, err := os.Create(os.Getenv("VERIF_OUT"))
	if err != nil {
		t.Fatal(err)
	}
	defer f.Close()
	out = json.NewEncoder(f)
	seed, _ := strconv.ParseInt(os.Getenv("VERIF_SEED"), 10, 64)
	rng := rand.New(rand.NewSource(seed*7919 + 13))
	nRandom, _ := strconv.Atoi(os.Getenv("VERIF_N"))
	total := 0
	// all interleavings (state pruning cuts the spin loops) of a first Store against loaders / a second storer
	for _, p := range [][]string{{"1", "L"}, {"1", "L", "L"}, {"1", "LL"}, {"1", "2", "L"}, {"12", "L"}, {"1", "2", "LL"},
		{"1", "2", "L", "L"}, {"1L", "2L"}, {"L1", "L2", "L"}} {
		total += dfs(Config{Progs: p}, 20000)
	}
	for i := 0; i < nRandom; i++ {
		nt := 2 + rng.Intn(3)
		cfg := Config{}
		for k := 0; k < nt; k++ {
			n := 1 + rng.Intn(3)
			b := make([]byte, n)
			for j := range b {
				b[j] = "L123"[rng.Intn(4)]
			}
			cfg.Progs = append(cfg.Progs, string(b))
		}
		r := start(cfg)
		end := ""
		for r.s.EnabledMask() != 0 {
			var a []int
			for i := range cfg.Progs {
				if r.s.EnabledMask()&(1<<uint(i)) != 0 {
					a = append(a, i)
				}
			}
			r.step(a[rng.Intn(len(a))])
			if len(r.sched) > 300 {
				end = "cut"
				break
			}
		}
		r.finish(end)
	}
	out.Encode(map[string]any{"kind": "stat", "m": "value", "dfs_runs": total, "runs": nRuns, "viol_records": nViol})
}
