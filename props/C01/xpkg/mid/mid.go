// Package mid embeds lib's types: promoted unexported methods keep lib's identity.
package mid

import "verifprog/lib"

type Wrap struct {
	lib.Base
	Extra int
}

type PWrap struct {
	*lib.Base
}

type local struct{ n int }

// a method named tag of THIS package: does not implement lib.Tagged
func (l local) tag() int { return l.n }

func Local(n int) any { return local{n} }

type LocalTagged interface{ tag() int }

func LocalTagOf(v any) int {
	if t, ok := v.(LocalTagged); ok {
		return t.tag()
	}
	return -1
}

var Total = lib.Counter * 2

func init() { Total += lib.K }
