package main

import (
	_ "sync"
	_ "sync/atomic"

	"verifprog/lib"
	"verifprog/mid"
)

func three(k int) [3]int { return [3]int{k, k + 1, k + 2} }

type holder struct {
	arr [4]int
	tag string
}

func mkHolder(k int) holder { return holder{arr: [4]int{k, 2 * k, 3 * k, 4 * k}, tag: "h"} }

// indexing array VALUES that have no address: received, looked up, returned, literal
func valueIndexing(i int) {
	ch := make(chan [3]int, 2)
	ch <- [3]int{1, 2, 3}
	ch <- [3]int{4, 5, 6}
	x := (<-ch)[i]
	v, ok := <-ch
	println("recvidx", x, v[i], ok)
	m := map[string][3]int{"a": {7, 8, 9}}
	println("mapidx", m["a"][i], m["zz"][i], three(10)[i], mkHolder(5).arr[i+1], [3]int{20, 21, 22}[i])
	hc := make(chan holder, 1)
	hc <- mkHolder(3)
	println("recvfield", (<-hc).arr[i])
	p := &[3]int{10, 11, 12}
	q := *p
	p[1] = 99
	println("copyidx", q[i], p[i])
}

type Wrapper struct {
	lib.Base
	extra int
}

type Deep struct {
	mid.Wrap
	z int
}

type mine struct{ n int }

func (m mine) tag() int { return m.n } // main.tag, not lib.tag
func (m mine) Pub() int { return m.n }

func main() {
	valueIndexing(1)
	w := Wrapper{lib.Base{N: 30}, 1}
	println("tagof", lib.TagOf(w), lib.TagOf(&w), lib.TagOf(mine{5}), lib.TagOf(lib.Base{N: 10}), lib.TagOf(&lib.Base{N: 11}), lib.TagOf(7))
	println("mid", lib.TagOf(mid.Wrap{Base: lib.Base{N: 40}}), lib.TagOf(&mid.PWrap{Base: &lib.Base{N: 50}}), lib.TagOf(mid.Local(60)), mid.LocalTagOf(mid.Local(60)), mid.LocalTagOf(mine{61}), mid.LocalTagOf(w))
	d := Deep{mid.Wrap{Base: lib.Base{N: 70}, Extra: 2}, 3}
	println("deep", lib.TagOf(d), lib.TagOf(&d), d.Pub(), d.N, d.Extra)
	var t lib.Tagged = w
	println("use", lib.Use(t), lib.Use(&d), lib.Use(mid.Wrap{Base: lib.Base{N: 1}}))
	println("kind", lib.Kind(w), lib.Kind(&w), lib.Kind(mine{1}), lib.Kind(d), lib.Kind(3), lib.Kind(&lib.Base{}), lib.Kind(lib.Base{}))
	if b, ok := any(&w).(lib.Bumper); ok {
		println("bumper", b.Bump(), w.N)
	} else {
		println("bumper no")
	}
	if _, ok := any(w).(lib.Bumper); ok {
		println("value bumper yes")
	} else {
		println("value bumper no")
	}
	var both lib.Both = &d
	println("both", both.Pub(), lib.Use(both))
	h := lib.NewHidden(9)
	println("hidden", h.Get())
	bx := lib.Box[string]{V: "ab"}
	bx.Set(bx.Val() + "c")
	bi := lib.Box[Wrapper]{V: w}
	println("box", bx.Val(), bi.Val().N, lib.Apply(3, func(x int) int { return x * x }), lib.Apply("x", func(s string) string { return s + "y" }))
	println("init", lib.Counter, mid.Total, lib.K)
	println("color", lib.Green.Name(), lib.Blue.Name(), lib.Color(0).Name(), int(lib.Blue))
	o := lib.NewOpt(1, 2)
	o2 := o.With(5)
	println("opt", o.A, o.Priv(), o2.A, o2.Priv(), o == lib.NewOpt(1, 2), o == o2)
	println("hook", lib.Hook(1))
	lib.Hook = func(x int) int { return -x }
	println("hook", lib.Hook(1))
	f := lib.Base.Pub
	g := (*lib.Base).Bump
	bb := lib.Base{N: 4}
	println("mexpr", f(bb), g(&bb), bb.N)
	mv := w.Pub
	w.N = 1000
	println("mval", mv(), w.Pub())
}
