// Package lib: declarations whose meaning depends on the package they are used from.
package lib

type Base struct{ N int }

func (b Base) tag() int   { return b.N }
func (b *Base) bump()     { b.N++ }
func (b Base) Pub() int   { return b.N * 2 }
func (b *Base) Bump() int { b.bump(); return b.N }

// sealed interfaces: only types that get tag from this package implement them
type Tagged interface{ tag() int }

type Both interface {
	Tagged
	Pub() int
}

type Bumper interface {
	bump()
	Bump() int
}

func TagOf(v any) int {
	if t, ok := v.(Tagged); ok {
		return t.tag()
	}
	return -1
}

func Use(t Tagged) int { return t.tag() + 1 }

func Kind(v any) string {
	switch v.(type) {
	case Both:
		return "both"
	case Tagged:
		return "tagged"
	case Bumper:
		return "bumper"
	case interface{ Pub() int }:
		return "pub"
	}
	return "none"
}

type hidden struct{ v int }

func (h hidden) Get() int { return h.v }

func NewHidden(v int) interface{ Get() int } { return hidden{v} }

type Box[T any] struct{ V T }

func (g Box[T]) Val() T               { return g.V }
func (g *Box[T]) Set(v T)             { g.V = v }
func Apply[T any](v T, f func(T) T) T { return f(f(v)) }

var Counter = initCounter()

func initCounter() int { return 41 }

func init() { Counter++ }

const K = 7

type Color int

const (
	Red Color = iota
	Green
	Blue
)

func (c Color) Name() string {
	switch c {
	case Red:
		return "red"
	case Green:
		return "green"
	}
	return "other"
}

type Opt struct {
	A    int
	priv int
}

func NewOpt(a, p int) Opt    { return Opt{a, p} }
func (o Opt) Priv() int      { return o.priv }
func (o Opt) With(a int) Opt { o.A = a; return o }

var Hook func(int) int = func(x int) int { return x + K }
