"""Typed random program generator for the core language (C01).  Everything is derived
from one PRNG; programs terminate (all loops bounded), never divide by zero, never
index out of range, and print only integers/bools/strings with println."""
import random

INT_TYPES = ["int", "int8", "int16", "int32", "int64", "uint8", "uint16", "uint32", "uint64", "uint"]

PRELUDE = '''package main

var acc uint64

func sink(v int) {
	acc = acc*1099511628211 + uint64(v)
}

func show(tag string, v int) {
	println(tag, v)
	sink(v)
}

type S struct {
	a int
	b int8
	c [3]int
	p *int
}

type E struct {
	S
	x int
}

type I interface{ M(k int) int }

type J interface {
	I
	N() int
}

func (s S) M(k int) int   { return s.a*k + int(s.b) + s.c[k&1] }
func (s *S) Inc(d int)    { s.a += d; s.c[2] -= d }
func (e *E) N() int       { e.x++; return e.x + e.a }
func (s S) Sum() (r int)  { for _, v := range s.c { r += v }; return r + s.a }

type V int

func (v V) M(k int) int { return int(v) - k }

type Num interface{ ~int | ~int8 | ~int64 | ~uint16 }

func Map[T any](xs []T, f func(T) T) []T {
	r := make([]T, 0, len(xs))
	for _, x := range xs {
		r = append(r, f(x))
	}
	return r
}

func SumOf[T Num](xs []T) (t T) {
	for _, x := range xs {
		t += x
	}
	return
}

type Pair[K comparable, W any] struct {
	k K
	w W
}

func (p Pair[K, W]) Key() K { return p.k }

func mk[K comparable, W any](k K, w W) Pair[K, W] { return Pair[K, W]{k, w} }

func two(a, b int) (int, int) { return b + 1, a - 1 }

func (s *S) incr() int { s.a++; return s.a }

func bumpInt(p *int) { *p += 1 }

// a copy taken before a store and a call keeps the old value
func snapStruct(k int) (S, int) {
	var c S
	c.a = k
	before := c
	c.a = k + 5
	return before, c.incr()
}

func snapPlain(k int) (S, int) {
	var c S
	c.a = k
	return c, c.incr()
}

func snapInt(k int) (int, int) {
	var o int
	v := o
	o = k
	bumpInt(&o)
	return v, o
}

func snapArr(k int) (S, S, int) {
	var s S
	empty := s
	s.c[2] = k
	n := s.incr()
	return empty, s, n
}

func sumv(base int, xs ...int) int {
	for i, x := range xs {
		base += x * (i + 1)
	}
	return base + len(xs)
}

func fact(n int) int {
	if n <= 1 {
		return 1
	}
	return n * fact(n-1)
}

func fibm(n int, memo *[16]int) int {
	if n < 2 {
		return n
	}
	if memo[n&15] != 0 {
		return memo[n&15]
	}
	r := fibm(n-1, memo) + fibm(n-2, memo)
	memo[n&15] = r
	return r
}

type Pt struct{ x, y int }

type Small struct{ a, b int32 }

type Big struct {
	a, b, c, d int
	t          [2]int
}

func useBig(v Big) int      { return v.a + v.b*3 + v.c*5 + v.d*7 + v.t[1] }
func (v Big) Tot() int      { return v.a - v.b + v.t[0] }
func useArr5(v [5]int) int  { return v[0] + v[3]*10 }
func useSeg(v Seg) int      { return v.a.x + v.b.y*3 + int(v.tag[1]) }
func retPt(p *Pt) Pt        { v := *p; p.x = 9; return v }
func retSmall(p *Small) Small { v := *p; p.a = 9; return v }
func retBig(p *Big) Big     { v := *p; p.a = 9; return v }
func retArr5(p *[5]int) [5]int { v := *p; p[0] = 9; return v }
func retTwo(p *Pt) (Pt, int)   { v := *p; p.x = 9; return v, p.x }
func boxBig(p *Big) any        { old := *p; p.a += 5; return old }
func boxPt(p *Pt) any          { v := *p; p.x = 9; return v }
func boxArr5(p *[5]int) any    { v := *p; p[0] = 9; return v }
func boxSmall(p *Small) any    { v := *p; p.a = 9; return v }
func popBox(st *[]Pt) any {
	s := *st
	v := s[len(s)-1]
	s[len(s)-1] = Pt{}
	*st = s[:len(s)-1]
	return v
}

type Seg struct {
	a, b Pt
	tag  [2]int8
}

func divmod(a, b int) (q, r int) {
	if b == 0 {
		return
	}
	q = a / b
	r = a % b
	return
}

func seq(n int) func(func(int, int) bool) {
	return func(yield func(int, int) bool) {
		for i := 0; i < n; i++ {
			if !yield(i, i*i) {
				return
			}
		}
	}
}
'''


class Gen:
    def __init__(self, seed, arr_mut=True):
        self.r = random.Random(seed)
        self.arr_mut = arr_mut
        self.out = []
        self.nvar = 0
        self.nfun = 0
        self.nlabel = 0
        self.helpers = []
        self.ro = set()

    def emit(self, ind, s):
        self.out.append("\t" * ind + s)

    def fresh(self, p="v"):
        self.nvar += 1
        return "%s%d" % (p, self.nvar)

    # ---- expressions over int variables in scope (all of type int) ----
    def const(self):
        return "K[%d]" % self.r.randrange(16)

    def lit(self):
        return str(self.r.choice([0, 1, 2, 3, 5, 7, 13, 64, 255, 256, 1000, -1, -7]))

    def expr(self, vs, depth=0):
        r = self.r.random()
        if depth > 2 or r < 0.25:
            return self.r.choice(vs) if vs and self.r.random() < 0.7 else self.const()
        a, b = self.expr(vs, depth + 1), self.expr(vs, depth + 1)
        op = self.r.choice(["+", "-", "*", "&", "|", "^", "&^", "/", "%", "<<", ">>", "cmp", "conv", "call", "neg"])
        if op in ("/", "%"):
            return "(%s %s ((%s)|1))" % (a, op, b)
        if op in ("<<", ">>"):
            return "(%s %s uint((%s)&31))" % (a, op, b)
        if op == "cmp":
            c = self.r.choice(["<", "<=", "==", "!=", ">", ">="])
            return "b2i(%s %s %s)" % (a, c, b)
        if op == "conv":
            t = self.r.choice(INT_TYPES)
            return "c_%s(%s)" % (t, a)
        if op == "call":
            return "%s(%s, %s)" % (self.r.choice(["add3", "pick", "gcdish"]), a, b)
        if op == "neg":
            return "(-(%s))" % a if self.r.random() < 0.5 else "(^(%s))" % a
        return "(%s %s %s)" % (a, op, b)

    def cond(self, vs):
        a, b = self.expr(vs, 1), self.expr(vs, 1)
        c = "%s %s %s" % (a, self.r.choice(["<", "<=", "==", "!=", ">", ">="]), b)
        r = self.r.random()
        if r < 0.2:
            return "%s && tr(%s)" % (c, self.expr(vs, 2))
        if r < 0.4:
            return "%s || tr(%s)" % (c, self.expr(vs, 2))
        if r < 0.5:
            return "!(%s)" % c
        return c

    # ---- statements ----
    def block(self, ind, vs, depth, n, loop_labels):
        vs = list(vs)
        for _ in range(n):
            self.stmt(ind, vs, depth, loop_labels)
        return vs

    def stmt(self, ind, vs, depth, loop_labels):
        r = self.r.random()
        if not vs or r < 0.12:
            v = self.fresh()
            self.emit(ind, "%s := %s" % (v, self.expr(vs)))
            self.emit(ind, "sink(%s)" % v)
            vs.append(v)
            return
        wr = [v for v in vs if v not in self.ro]
        if r < 0.26 and wr:
            v = self.r.choice(wr)
            op = self.r.choice(["=", "+=", "-=", "*=", "^=", "|=", "&="])
            self.emit(ind, "%s %s %s" % (v, op, self.expr(vs)))
            return
        if r < 0.31 and len(wr) >= 2:
            a, b = self.r.sample(wr, 2)
            k = self.r.random()
            if k < 0.4:
                self.emit(ind, "%s, %s = %s, %s" % (a, b, b, self.expr(vs, 1)))
            elif k < 0.7:
                self.emit(ind, "%s, %s = two(%s, %s)" % (a, b, a, b))
            else:
                self.emit(ind, "%s++" % a)
                self.emit(ind, "%s--" % b)
            return
        if r < 0.37:
            self.emit(ind, 'show("t%d", %s)' % (self.r.randrange(100), self.expr(vs, 1)))
            return
        if depth >= 3:
            self.emit(ind, "sink(%s)" % self.expr(vs, 1))
            return
        if r < 0.52:
            self.emit(ind, "if %s {" % self.cond(vs))
            self.block(ind + 1, vs, depth + 1, self.r.randrange(1, 4), loop_labels)
            k = self.r.random()
            if k < 0.3:
                self.emit(ind, "} else if %s {" % self.cond(vs))
                self.block(ind + 1, vs, depth + 1, self.r.randrange(1, 3), loop_labels)
                self.emit(ind, "} else {")
                self.block(ind + 1, vs, depth + 1, self.r.randrange(1, 3), loop_labels)
            elif k < 0.6:
                self.emit(ind, "} else {")
                self.block(ind + 1, vs, depth + 1, self.r.randrange(1, 3), loop_labels)
            self.emit(ind, "}")
            return
        if r < 0.70:
            self.loop(ind, vs, depth, loop_labels)
            return
        if r < 0.78:
            self.switch(ind, vs, depth, loop_labels)
            return
        if r < 0.84 and loop_labels:
            lab, kind = self.r.choice(loop_labels)
            word = self.r.choice(["break", "continue"])
            self.emit(ind, "if %s {" % self.cond(vs))
            self.emit(ind + 1, "%s %s" % (word, lab))
            self.emit(ind, "}")
            return
        if r < 0.92:
            self.closure(ind, vs, depth)
            return
        self.feature(ind, vs)

    def loop(self, ind, vs, depth, loop_labels):
        self.nlabel += 1
        lab = "L%d" % self.nlabel
        k = self.r.random()
        n = self.r.randrange(1, 5)
        i = self.fresh("i")
        pre = []
        extra = []
        if k < 0.3:
            head = "for %s := 0; %s < %d; %s++ {" % (i, i, n, i)
            body_vs = vs + [i]
        elif k < 0.45:
            head = "for %s := range %d {" % (i, n)
            body_vs = vs + [i]
        elif k < 0.6:
            arr = self.fresh("a")
            vals = ", ".join(self.lit() for _ in range(n))
            pre.append("%s := [...]int{%s}" % (arr, vals))
            e = self.fresh("e")
            head = "for %s, %s := range %s {" % (i, e, arr)
            # mutate the array inside the loop: range iterates over a copy
            if self.arr_mut:
                extra.append("%s[(%s+1)%%%d] += %s & 15" % (arr, i, n, e))
            else:
                extra.append("sink(%s[(%s+1)%%%d] + (%s & 15))" % (arr, i, n, e))
            body_vs = vs + [i, e]
        elif k < 0.72:
            sl = self.fresh("s")
            vals = ", ".join(self.lit() for _ in range(n))
            pre.append("%s := []int{%s}" % (sl, vals))
            e = self.fresh("e")
            head = "for %s, %s := range %s {" % (i, e, sl)
            extra.append("%s[(%s+1)%%%d] += %s & 15" % (sl, i, n, e))
            body_vs = vs + [i, e]
        elif k < 0.82:
            e = self.fresh("e")
            head = "for %s, %s := range seq(%d) {" % (i, e, n)
            body_vs = vs + [i, e]
        elif k < 0.9:
            e = self.fresh("c")
            sv = self.r.choice(['"h\\u00e9llo"', '"a\\xffb"', '"\\u4e16\\u754c!"', '""'])
            head = "for %s, %s := range %s {" % (i, e, sv)
            extra.append("sink(int(%s))" % e)
            body_vs = vs + [i]
        else:
            c = self.fresh("n")
            pre.append("%s := %d" % (c, n))
            head = "for %s > 0 {" % c
            extra.append("%s--" % c)
            body_vs = vs + [c]
        for v in body_vs[len(vs):]:
            self.ro.add(v)
        for l in pre:
            self.emit(ind, l)
        at = len(self.out)
        self.emit(ind, head)
        for l in extra:
            self.emit(ind + 1, l)
        for v in body_vs[len(vs):]:
            self.emit(ind + 1, "sink(%s)" % v)
        self.block(ind + 1, body_vs, depth + 1, self.r.randrange(1, 4), loop_labels + [(lab, "for")])
        self.emit(ind, "}")
        if any((" " + lab) in l and (l.strip().startswith("break") or l.strip().startswith("continue")) for l in self.out[at:]):
            self.out.insert(at, "\t" * ind + lab + ":")

    def switch(self, ind, vs, depth, loop_labels):
        k = self.r.random()
        if k < 0.6:
            self.emit(ind, "switch (%s) & 3 {" % self.expr(vs, 1))
            for c in range(3):
                self.emit(ind, "case %d:" % c)
                self.block(ind + 1, vs, depth + 1, self.r.randrange(1, 3), loop_labels)
                if c < 2 and self.r.random() < 0.3:
                    self.emit(ind + 1, "fallthrough")
            self.emit(ind, "default:")
            self.block(ind + 1, vs, depth + 1, 1, loop_labels)
            self.emit(ind, "}")
        else:
            x = self.fresh("x")
            self.emit(ind, "var %s any = pickAny(%s)" % (x, self.expr(vs, 1)))
            self.emit(ind, "switch t := %s.(type) {" % x)
            self.emit(ind, "case int:")
            self.emit(ind + 1, "sink(t + 1)")
            self.emit(ind, "case V:")
            self.emit(ind + 1, "sink(t.M(2))")
            self.emit(ind, "case S, *S:")
            self.emit(ind + 1, "sink(t.(I).M(1))")
            self.emit(ind, "case I:")
            self.emit(ind + 1, "sink(t.M(3))")
            self.emit(ind, "case nil:")
            self.emit(ind + 1, "sink(-5)")
            self.emit(ind, "default:")
            self.emit(ind + 1, "sink(-6)")
            self.emit(ind, "}")

    def closure(self, ind, vs, depth):
        f = self.fresh("f")
        wr = [v for v in vs if v not in self.ro] or ["acc0"]
        if wr == ["acc0"]:
            self.emit(ind, "acc0 := 1")
            self.emit(ind, "sink(acc0)")
        cap = self.r.choice(wr)
        k = self.r.random()
        if k < 0.35:
            self.emit(ind, "%s := func(d int) int { %s += d; return %s * 2 }" % (f, cap, cap))
            self.emit(ind, "sink(%s(%s))" % (f, self.expr(vs, 2)))
            self.emit(ind, "sink(%s(1) + %s)" % (f, cap))
        elif k < 0.6:
            fs = self.fresh("fs")
            i = self.fresh("i")
            self.emit(ind, "var %s []func() int" % fs)
            self.emit(ind, "for %s := 0; %s < 3; %s++ {" % (i, i, i))
            self.emit(ind + 1, "%s = append(%s, func() int { return %s*10 + %s })" % (fs, fs, i, cap))
            self.emit(ind, "}")
            self.emit(ind, "%s++" % cap)
            self.emit(ind, "for _, g := range %s {" % fs)
            self.emit(ind + 1, "sink(g())")
            self.emit(ind, "}")
        elif k < 0.8:
            self.emit(ind, "%s := counter(%s)" % (f, self.expr(vs, 2)))
            self.emit(ind, "sink(%s() + %s() + %s())" % (f, f, f))
        else:
            self.emit(ind, "%s := func(g func(int) int, n int) int { if n <= 0 { return g(n) }; return g(n) + g(n-1) }" % f)
            self.emit(ind, "sink(%s(func(q int) int { return q*q - %s }, %s & 7))" % (f, cap, self.expr(vs, 2)))

    def feature(self, ind, vs, k=None):
        k = self.r.randrange(23) if k is None else k
        a = self.expr(vs, 1)
        b = self.expr(vs, 1)
        if k == 0:
            s = self.fresh("s")
            self.emit(ind, "%s := S{a: %s, b: int8(%s), c: [3]int{1, %s, 3}}" % (s, a, b, a))
            self.emit(ind, "%s.Inc(%s & 7)" % (s, b))
            self.emit(ind, "sink(%s.M(2) + %s.Sum())" % (s, s))
            t = self.fresh("s")
            self.emit(ind, "%s := %s" % (t, s))
            self.emit(ind, "%s.c[0] = 99" % t)
            self.emit(ind, "sink(%s.c[0] + %s.c[0])" % (s, t))
        elif k == 1:
            e = self.fresh("e")
            self.emit(ind, "%s := &E{S: S{a: %s}, x: %s & 255}" % (e, a, b))
            j = self.fresh("j")
            self.emit(ind, "var %s J = %s" % (j, e))
            self.emit(ind, "sink(%s.N() + %s.M(1))" % (j, j))
            self.emit(ind, "%s.Inc(2)" % e)
            self.emit(ind, "sink(%s.N() + %s.a + %s.S.a)" % (j, e, e))
            # assertions between interface types, nil and non-nil operands (comma-ok and type switch)
            nj = self.fresh("nj")
            self.emit(ind, "var %s J" % nj)
            self.emit(ind, "if _, ok := %s.(I); ok {" % nj)
            self.emit(ind + 1, "sink(-77)")
            self.emit(ind, "} else {")
            self.emit(ind + 1, "sink(77)")
            self.emit(ind, "}")
            self.emit(ind, "switch %s.(type) {" % nj)
            self.emit(ind, "case I:")
            self.emit(ind + 1, "sink(-78)")
            self.emit(ind, "case nil:")
            self.emit(ind + 1, "sink(78)")
            self.emit(ind, "default:")
            self.emit(ind + 1, "sink(79)")
            self.emit(ind, "}")
            self.emit(ind, "switch t := I(%s).(type) {" % j)
            self.emit(ind, "case J:")
            self.emit(ind + 1, "sink(t.N())")
            self.emit(ind, "case any:")
            self.emit(ind + 1, "sink(-80)")
            self.emit(ind, "}")
        elif k == 2:
            self.emit(ind, "{")
            self.emit(ind + 1, "var is = []I{S{a: %s}, &S{a: %s}, V(%s & 1023)}" % (a, b, a))
            self.emit(ind + 1, "for n, it := range is {")
            self.emit(ind + 2, "sink(it.M(n))")
            self.emit(ind + 2, "if _, ok := it.(V); ok {")
            self.emit(ind + 3, "sink(100 + n)")
            self.emit(ind + 2, "}")
            self.emit(ind + 1, "}")
            self.emit(ind, "}")
        elif k == 3:
            self.emit(ind, "sink(SumOf(Map([]int{%s, %s, 3}, func(q int) int { return q ^ 5 })))" % (a, b))
            self.emit(ind, "sink(int(SumOf([]int8{int8(%s), 100, 100})))" % a)
            self.emit(ind, "sink(int(SumOf(Map([]uint16{uint16(%s), 65535}, func(q uint16) uint16 { return q + 1 }))))" % b)
        elif k == 4:
            p = self.fresh("p")
            self.emit(ind, '%s := mk(%s, "k")' % (p, a))
            self.emit(ind, "sink(%s.Key() + len(%s.w))" % (p, p))
            q = self.fresh("p")
            self.emit(ind, "%s := mk(V(%s & 4095), [2]int{%s, 4})" % (q, b, a))
            self.emit(ind, "sink(%s.Key().M(1) + %s.w[0])" % (q, q))
        elif k == 5:
            m = self.fresh("m")
            s = self.fresh("s")
            self.emit(ind, "%s := S{a: %s, c: [3]int{4, 5, 6}}" % (s, a))
            self.emit(ind, "%s := %s.M" % (m, s))
            self.emit(ind, "%s.a = 1000" % s)
            self.emit(ind, "sink(%s(2) + S.M(%s, 2) + (*S).Sum(&%s))" % (m, s, s))
        elif k == 6:
            x = self.fresh("x")
            p = self.fresh("p")
            self.emit(ind, "%s := %s" % (x, a))
            self.emit(ind, "%s := &%s" % (p, x))
            self.emit(ind, "*%s += %s" % (p, b))
            pp = self.fresh("pp")
            self.emit(ind, "%s := &%s" % (pp, p))
            self.emit(ind, "**%s ^= 21" % pp)
            self.emit(ind, "sink(%s + *%s)" % (x, p))
        elif k == 7:
            arr = self.fresh("a")
            self.emit(ind, "var %s [4][2]int" % arr)
            self.emit(ind, "for y := range %s {" % arr)
            self.emit(ind + 1, "for z := range %s[y] {" % arr)
            self.emit(ind + 2, "%s[y][z] = y*10 + z + (%s & 3)" % (arr, a))
            self.emit(ind + 1, "}")
            self.emit(ind, "}")
            b2 = self.fresh("b")
            self.emit(ind, "%s := %s" % (b2, arr))
            self.emit(ind, "%s[1][1] = -1" % b2)
            self.emit(ind, "sink(%s[1][1] + %s[1][1] + b2i(%s == %s) + len(%s))" % (arr, b2, arr, b2, arr))
        elif k == 8:
            self.emit(ind, "{")
            self.emit(ind + 1, "x, y, z := 1, %s, %s" % (a, b))
            self.emit(ind + 1, "x, y, z = z, x, y")
            self.emit(ind + 1, "arr := [3]int{x, y, z}")
            self.emit(ind + 1, "k := 0")
            self.emit(ind + 1, "k, arr[k] = 2, 50")
            self.emit(ind + 1, "sink(arr[0] + arr[2]*3 + k + x - y + z)")
            self.emit(ind, "}")
        elif k == 20:
            # variadic interface arguments, method value on interface, func returning funcs
            self.emit(ind, "{")
            self.emit(ind + 1, "var it I = V(%s & 15)" % a)
            self.emit(ind + 1, "mv := it.M")
            self.emit(ind + 1, "it = S{a: 7}")
            self.emit(ind + 1, "adders := func(n int) (func(int) int, func() int) { c := n; return func(d int) int { c += d; return c }, func() int { return c } }")
            self.emit(ind + 1, "ad, rd := adders(%s & 7)" % b)
            self.emit(ind + 1, "ad(2)")
            self.emit(ind + 1, "ad(3)")
            self.emit(ind + 1, "sink(mv(1) + it.M(1)*3 + rd())")
            self.emit(ind, "}")
        elif k == 9:
            # locals declared inside a loop body are fresh (zero) in every iteration
            i = self.fresh("i")
            self.emit(ind, "for %s := 0; %s < 3; %s++ {" % (i, i, i))
            self.emit(ind + 1, "var fl [4]int")
            self.emit(ind + 1, "var st S")
            self.emit(ind + 1, "ps := &st")
            self.emit(ind + 1, "fl[(%s+(%s))&3] += %s + 1" % (i, a, i))
            self.emit(ind + 1, "ps.c[%s%%3] += 2" % i)
            self.emit(ind + 1, "ps.a += %s" % i)
            self.emit(ind + 1, "sink(fl[0] + fl[1]*3 + fl[2]*5 + fl[3]*7 + st.Sum())")
            self.emit(ind, "}")
        elif k == 10:
            self.emit(ind, "{")
            self.emit(ind + 1, "s1, n1 := snapStruct(%s & 255)" % a)
            self.emit(ind + 1, "s2, n2 := snapPlain(%s & 255)" % b)
            self.emit(ind + 1, "v3, o3 := snapInt(%s & 255)" % a)
            self.emit(ind + 1, "e4, s4, n4 := snapArr(%s & 255)" % b)
            self.emit(ind + 1, "sink(s1.a*3 + n1 + s2.a*5 + n2 + v3*7 + o3 + e4.c[2]*11 + s4.c[2] + s4.a + n4)")
            self.emit(ind, "}")
        elif k == 11:
            self.emit(ind, "sink(sumv(%s & 15) + sumv(1, %s & 7, 3) + sumv(2, []int{4, %s & 3, 6}...))" % (a, b, a))
        elif k == 12:
            self.emit(ind, "{")
            self.emit(ind + 1, "var memo [16]int")
            self.emit(ind + 1, "sink(fact(%s & 7) + fibm(%s & 15, &memo))" % (a, b))
            self.emit(ind, "}")
        elif k == 13:
            self.emit(ind, "{")
            self.emit(ind + 1, "p := Seg{a: Pt{%s & 7, 2}, b: Pt{3, %s & 7}, tag: [2]int8{1, 2}}" % (a, b))
            self.emit(ind + 1, "q := p")
            self.emit(ind + 1, "q.b.y++")
            self.emit(ind + 1, "r := p")
            self.emit(ind + 1, "an := struct{ u, w int }{%s & 3, 1}" % a)
            self.emit(ind + 1, "sink(b2i(p == q) + b2i(p == r)*2 + b2i(p.a == q.a)*4 + b2i(an == struct{ u, w int }{1, 1})*8 + b2i(p.tag == [2]int8{1, 2})*16)")
            self.emit(ind, "}")
        elif k == 14:
            self.emit(ind, "{")
            self.emit(ind + 1, "q, r := divmod(%s, %s & 15)" % (a, b))
            self.emit(ind + 1, "var e1, e2 any = V(%s & 3), V(%s & 3)" % (a, b))
            self.emit(ind + 1, "var i1 I = V(1)")
            self.emit(ind + 1, "sink(q*3 + r + b2i(e1 == e2) + b2i(i1 == I(V(1)))*2 + b2i(e1 != nil)*4)")
            self.emit(ind, "}")
        elif k == 16:
            # go statement: function value and arguments are evaluated at the go statement
            self.emit(ind, "{")
            self.emit(ind + 1, "ch := make(chan int, 4)")
            self.emit(ind + 1, "x, y := %s & 255, %s & 255" % (a, b))
            self.emit(ind + 1, "f := func(v int, w *int) { ch <- v*1000 + *w }")
            self.emit(ind + 1, "go f(x, &y)")
            self.emit(ind + 1, "r0 := <-ch")
            self.emit(ind + 1, "x, f = 999, func(v int, w *int) { ch <- -1 }")
            self.emit(ind + 1, "st := &S{a: x}")
            self.emit(ind + 1, "go st.Inc(y & 7)")
            self.emit(ind + 1, "go func() { ch <- x + 1 }()")
            self.emit(ind + 1, "r1 := <-ch")
            self.emit(ind + 1, "done := make(chan bool)")
            self.emit(ind + 1, "go func(n int) { for i := 0; i < n; i++ { ch <- i }; close(ch); done <- true }(3)")
            self.emit(ind + 1, "t := 0")
            self.emit(ind + 1, "for v := range ch {")
            self.emit(ind + 2, "t = t*10 + v + 1")
            self.emit(ind + 1, "}")
            self.emit(ind + 1, "<-done")
            self.emit(ind + 1, "sink(r0 + r1*7 + t + b2i(st.a >= 999))")
            self.emit(ind, "}")
        elif k == 17:
            self.emit(ind, "{")
            self.emit(ind + 1, "c1, c2 := make(chan int, 1), make(chan int, 1)")
            self.emit(ind + 1, "w := 0")
            self.emit(ind + 1, "select {")
            self.emit(ind + 1, "case v := <-c1:")
            self.emit(ind + 2, "w = v")
            self.emit(ind + 1, "default:")
            self.emit(ind + 2, "w = -3")
            self.emit(ind + 1, "}")
            self.emit(ind + 1, "c2 <- %s & 63" % a)
            self.emit(ind + 1, "select {")
            self.emit(ind + 1, "case v := <-c1:")
            self.emit(ind + 2, "w += v")
            self.emit(ind + 1, "case v, ok := <-c2:")
            self.emit(ind + 2, "w += v*2 + b2i(ok)")
            self.emit(ind + 1, "}")
            self.emit(ind + 1, "select {")
            self.emit(ind + 1, "case c1 <- 5:")
            self.emit(ind + 2, "w += 100")
            self.emit(ind + 1, "case c2 <- 6:")
            self.emit(ind + 2, "w += 100")
            self.emit(ind + 1, "}")
            self.emit(ind + 1, "sink(w + len(c1) + len(c2) + cap(c1))")
            self.emit(ind, "}")
        elif k == 18:
            self.emit(ind, "{")
            self.emit(ind + 1, 's := "h\u00e9llo" + string(rune(65+(%s&7)))' % a)
            self.emit(ind + 1, "bs := []byte(s)")
            self.emit(ind + 1, "bs[0] = 'H'")
            self.emit(ind + 1, "rs := []rune(s)")
            self.emit(ind + 1, 't := string(bs) + s[1:3] + string(rs[1:2])')
            self.emit(ind + 1, 'sink(len(s) + len(rs)*10 + len(t)*100 + int(s[1]) + b2i(s < t)*1000 + b2i(t == "x") + b2i(s[:2] == "h\xc3")*3)')
            self.emit(ind, "}")
        elif k == 19:
            self.emit(ind, "{")
            self.emit(ind + 1, "m := map[int]int{}")
            self.emit(ind + 1, "for q := 0; q < 20; q++ {")
            self.emit(ind + 2, "m[q*(%s&3+1)%%7] += q" % a)
            self.emit(ind + 1, "}")
            self.emit(ind + 1, "delete(m, 3)")
            self.emit(ind + 1, "t, n := 0, 0")
            self.emit(ind + 1, "for kk, vv := range m {")
            self.emit(ind + 2, "t += kk*31 + vv")
            self.emit(ind + 2, "n++")
            self.emit(ind + 1, "}")
            self.emit(ind + 1, "_, ok := m[3]")
            self.emit(ind + 1, 'ms := map[string][]int{"a": {1}, "b": nil}')
            self.emit(ind + 1, 'ms["a"] = append(ms["a"], %s & 7)' % b)
            self.emit(ind + 1, 'sink(t + n*1000 + len(m) + b2i(ok) + len(ms["a"])*7 + ms["a"][1] + len(ms["zz"]))')
            self.emit(ind, "}")
        elif k == 15:
            # shadowing and block scopes
            x = self.fresh("x")
            self.emit(ind, "%s := %s & 63" % (x, a))
            self.emit(ind, "{")
            self.emit(ind + 1, "%s := %s + 1" % (x, x))
            self.emit(ind + 1, "if %s := %s * 2; %s > 10 {" % (x, x, x))
            self.emit(ind + 2, "sink(%s)" % x)
            self.emit(ind + 1, "}")
            self.emit(ind + 1, "sink(%s)" % x)
            self.emit(ind, "}")
            self.emit(ind, "sink(%s)" % x)
        elif k == 21:
            # assignment and parameter passing copy values: a copy taken through a pointer is not
            # affected by later stores to the original, whatever the size of the value
            pb, v = self.fresh("pb"), self.fresh("bv")
            self.emit(ind, "%s := &Big{a: %s, b: %s, c: 3, d: 4}" % (pb, a, b))
            self.emit(ind, "%s := *%s" % (v, pb))
            self.emit(ind, "%s.b = 77" % pb)
            self.emit(ind, "%s.t[1] = 5" % pb)
            self.emit(ind, "sink(useBig(%s) + %s.Tot())" % (v, v))
            arr, w = self.fresh("ar"), self.fresh("aw")
            self.emit(ind, "%s := &[5]int{1, %s, 3, 4, 5}" % (arr, a))
            self.emit(ind, "%s := *%s" % (w, arr))
            self.emit(ind, "%s[3] = %s" % (arr, b))
            self.emit(ind, "sink(useArr5(%s))" % w)
            sg, cp = self.fresh("sg"), self.fresh("sc")
            self.emit(ind, "%s := &Seg{a: Pt{%s, 2}, b: Pt{3, %s}}" % (sg, a, b))
            self.emit(ind, "%s := *%s" % (cp, sg))
            self.emit(ind, "%s.a.x = 5" % sg)
            self.emit(ind, "%s.tag[1] = 3" % sg)
            self.emit(ind, "sink(useSeg(%s))" % cp)
            pt, sm = self.fresh("pt"), self.fresh("sm")
            self.emit(ind, "%s := &Pt{%s, %s}" % (pt, a, b))
            self.emit(ind, "sink(retPt(%s).x + %s.x)" % (pt, pt))
            self.emit(ind, "%s := &Small{int32(%s), 2}" % (sm, a))
            self.emit(ind, "sink(int(retSmall(%s).a) + int(%s.a))" % (sm, sm))
            self.emit(ind, "sink(retBig(%s).a + %s.a)" % (pb, pb))
            self.emit(ind, "sink(retArr5(%s)[0] + %s[0])" % (arr, arr))
            # a value boxed into an interface after the original was changed is still the old value
            self.emit(ind, "sink(boxBig(%s).(Big).a + %s.a)" % (pb, pb))
            self.emit(ind, "sink(boxPt(%s).(Pt).x + boxArr5(%s).([5]int)[0] + int(boxSmall(%s).(Small).a))" % (pt, arr, sm))
            stk = self.fresh("st")
            self.emit(ind, "%s := []Pt{{%s, 1}, {2, %s}}" % (stk, a, b))
            self.emit(ind, "sink(popBox(&%s).(Pt).y + popBox(&%s).(Pt).x + len(%s))" % (stk, stk, stk))
            r2, n2 = self.fresh("rr"), self.fresh("rn")
            self.emit(ind, "%s, %s := retTwo(&Pt{%s, 1})" % (r2, n2, b))
            self.emit(ind, "sink(%s.x + %s)" % (r2, n2))
        else:
            n = self.fresh("n")
            self.emit(ind, "%s := 0" % n)
            self.emit(ind, "goto G%s" % n)
            self.emit(ind, "B%s:" % n)
            self.emit(ind, "%s += 10" % n)
            self.emit(ind, "G%s:" % n)
            self.emit(ind, "%s++" % n)
            self.emit(ind, "if %s < 25 {" % n)
            self.emit(ind + 1, "goto B%s" % n)
            self.emit(ind, "}")
            self.emit(ind, "sink(%s + (%s & 1))" % (n, a))

    def function(self, idx):
        self.emit(0, "func fn%d(p0, p1 int) (res int) {" % idx)
        vs = self.block(1, ["p0", "p1"], 0, self.r.randrange(4, 10), [])
        self.emit(1, "res = %s" % self.expr(vs, 1))
        self.emit(1, "return")
        self.emit(0, "}")
        self.emit(0, "")


SUFFIX = '''
var K = [16]int{0, 1, 2, 3, 5, 7, 13, 64, 255, 256, 1000, -1, -7, 1 << 20, 1<<31 - 1, -(1 << 31)}

func c_int(x int) int { return int(int(x)) }
func c_int8(x int) int { return int(int8(x)) }
func c_int16(x int) int { return int(int16(x)) }
func c_int32(x int) int { return int(int32(x)) }
func c_int64(x int) int { return int(int64(x)) }
func c_uint8(x int) int { return int(uint8(x)) }
func c_uint16(x int) int { return int(uint16(x)) }
func c_uint32(x int) int { return int(uint32(x)) }
func c_uint64(x int) int { return int(uint64(x)) }
func c_uint(x int) int { return int(uint(x)) }

func b2i(b bool) int {
	if b {
		return 1
	}
	return 0
}

func tr(v int) bool {
	sink(v + 17)
	return v&1 == 0
}

func add3(a, b int) int { return a + b*3 }

func pick(a, b int) int {
	if a&1 == 0 {
		return a
	}
	return b
}

func gcdish(a, b int) int {
	for i := 0; i < 8 && b != 0; i++ {
		a, b = b, a%b
	}
	return a
}

func counter(start int) func() int {
	c := start
	return func() int {
		c += 3
		return c
	}
}

func pickAny(v int) any {
	switch v & 7 {
	case 0:
		return v
	case 1:
		return V(v)
	case 2:
		return S{a: v}
	case 3:
		return &S{a: v}
	case 4:
		return nil
	case 5:
		return &E{x: v}
	}
	return "str"
}
'''


def gen_program(seed, nfuncs=12, arr_mut=True):
    g = Gen(seed, arr_mut)
    for i in range(nfuncs):
        g.function(i)
    # every feature snippet once, so that no language feature depends on the dice
    g.emit(0, "func tour(p0, p1 int) (res int) {")
    for k in range(23):
        g.feature(1, ["p0", "p1"], k)
    g.emit(1, "return p0 ^ p1")
    g.emit(0, "}")
    g.emit(0, "")
    g.emit(0, "func main() {")
    rr = random.Random(seed + 7)
    for i in range(nfuncs):
        for _ in range(3):
            a = rr.choice([0, 1, -1, 7, 100, 255, -128, 65536, (1 << 31) - 1, rr.randrange(-1000, 1000)])
            b = rr.choice([0, 1, -1, 3, 64, 1000, -77, rr.randrange(-1000, 1000)])
            g.emit(1, 'show("fn%d", fn%d(%d, %d))' % (i, i, a, b))
    for a, b in ((0, 0), (3, 5), (-7, 1000), (255, -1)):
        g.emit(1, 'show("tour", tour(%d, %d))' % (a, b))
    g.emit(1, 'println("acc", acc)')
    g.emit(0, "}")
    return PRELUDE + "\n" + "\n".join(g.out) + "\n" + SUFFIX
