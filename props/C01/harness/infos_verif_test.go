package blocks

// Injected by /verif (go test -overlay); not part of the repository.
// Runs the real Infos on (a) every function of a generated Go source file
// (go/ssa built as internal/build does) and (b) random CFGs fed directly as
// ssa.BasicBlock graphs, and reports successor lists, the compile order and
// the loop marks.

import (
	"encoding/json"
	"go/ast"
	"go/importer"
	"go/parser"
	"go/token"
	"go/types"
	"os"
	"strconv"
	"testing"

	llssa "github.com/goplus/llgo/ssa"
	"golang.org/x/tools/go/ssa"
	"golang.org/x/tools/go/ssa/ssautil"
)

type vrng struct{ s uint64 }

func (r *vrng) next() uint64 {
	r.s += 0x9e3779b97f4a7c15
	z := r.s
	z = (z ^ (z >> 30)) * 0xbf58476d1ce4e5b9
	z = (z ^ (z >> 27)) * 0x94d049bb133111eb
	return z ^ (z >> 31)
}
func (r *vrng) n(k int) int { return int(r.next() % uint64(k)) }

type vrec struct {
	Name  string   `json:"name"`
	Succs [][]int  `json:"succs"`
	Order []int    `json:"order"`
	Kinds []string `json:"kinds"`
	Viol  string   `json:"viol,omitempty"`
	What  string   `json:"what,omitempty"`
}

func kindName(k llssa.DoAction) string {
	switch k {
	case llssa.DeferAlways:
		return "Always"
	case llssa.DeferInCond:
		return "Cond"
	case llssa.DeferInLoop:
		return "InLoop"
	}
	return "?"
}

func record(name string, blks []*ssa.BasicBlock) (rec vrec) {
	rec.Name = name
	defer func() {
		if r := recover(); r != nil {
			rec.Viol = "blocks-infos-panics"
			rec.What = "Infos panicked on a CFG"
		}
	}()
	for _, b := range blks {
		ss := []int{}
		for _, s := range b.Succs {
			ss = append(ss, s.Index)
		}
		rec.Succs = append(rec.Succs, ss)
	}
	infos := Infos(blks)
	for _, b := range blks {
		rec.Kinds = append(rec.Kinds, kindName(infos[b.Index].Kind))
	}
	seen := 0
	for i := 0; i >= 0 && seen <= len(blks); i = infos[i].Next {
		rec.Order = append(rec.Order, i)
		seen++
	}
	return
}

// random CFG in the shape go/ssa produces: every block but the entry has a
// predecessor, the entry may have predecessors (loops back to block 0 do not
// occur in go/ssa output, but unreachable-from-nothing blocks like the recover
// block do).
func randomCFG(r *vrng) []*ssa.BasicBlock {
	n := 1 + r.n(12)
	if r.n(8) == 0 {
		n = 12 + r.n(28)
	}
	blks := make([]*ssa.BasicBlock, n)
	for i := range blks {
		blks[i] = &ssa.BasicBlock{Index: i}
	}
	addEdge := func(a, b int) {
		blks[a].Succs = append(blks[a].Succs, blks[b])
		blks[b].Preds = append(blks[b].Preds, blks[a])
	}
	recoverBlk := -1
	if n > 2 && r.n(6) == 0 {
		recoverBlk = n - 1
	}
	for i := 1; i < n; i++ {
		if i == recoverBlk {
			continue
		}
		// a predecessor among the earlier blocks keeps everything reachable from the entry
		addEdge(r.n(i), i)
	}
	for i := 0; i < n; i++ {
		if i == recoverBlk || len(blks[i].Succs) >= 2 {
			continue
		}
		switch r.n(5) {
		case 0, 1: // forward or cross edge
			if t := 1 + r.n(n-1+1) - 1; t >= 1 && t < n && t != recoverBlk && len(blks[i].Succs) < 2 {
				addEdge(i, t)
			}
		case 2: // back edge (never to the entry block)
			if i > 1 {
				if t := 1 + r.n(i); t != recoverBlk {
					addEdge(i, t)
				}
			}
		}
	}
	return blks
}

func TestVerif(t *testing.T) {
	out, err := os.Create(os.Getenv("VERIF_OUT"))
	if err != nil {
		t.Fatal(err)
	}
	defer out.Close()
	enc := json.NewEncoder(out)
	if src := os.Getenv("VERIF_SRC"); src != "" {
		fset := token.NewFileSet()
		f, err := parser.ParseFile(fset, src, nil, parser.ParseComments)
		if err != nil {
			t.Fatal(err)
		}
		pkg := types.NewPackage("main", "main")
		spkg, _, err := ssautil.BuildPackage(&types.Config{Importer: importer.Default()}, fset, pkg, []*ast.File{f},
			ssa.SanityCheckFunctions|ssa.InstantiateGenerics)
		if err != nil {
			t.Fatal(err)
		}
		var visit func(fn *ssa.Function)
		visit = func(fn *ssa.Function) {
			if len(fn.Blocks) > 0 {
				enc.Encode(record(fn.Name(), fn.Blocks))
			}
			for _, an := range fn.AnonFuncs {
				visit(an)
			}
		}
		for _, m := range spkg.Members {
			if fn, ok := m.(*ssa.Function); ok {
				visit(fn)
			}
		}
	}
	seed, _ := strconv.ParseUint(os.Getenv("VERIF_SEED"), 10, 64)
	n, _ := strconv.Atoi(os.Getenv("VERIF_N"))
	r := &vrng{s: seed*2654435761 + 99}
	for i := 0; i < n; i++ {
		enc.Encode(record("random", randomCFG(r)))
	}
}
