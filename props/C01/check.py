"""C01 - compiled programs behave as the Go language specifies (core language).

E: typed random programs over the core language (props/C01/gen.py) built by llgo
(-O0, and -O2 where LLVM 14 survives it; single package and split over packages)
and by the reference toolchain; outputs compared line by line.
S1 + Coq: cl/blocks.Infos (block compile order, loop marking) on generated and
random CFGs vs the Coq model and the proved-sound order validator (C01/Model.v)."""
import os, re, json, sys, collections
import vlib, e2e
H = os.path.dirname(os.path.abspath(__file__))
sys.path.insert(0, H)
import importlib.util
_spec = importlib.util.spec_from_file_location("c01gen", os.path.join(H, "gen.py"))
gen = importlib.util.module_from_spec(_spec)
_spec.loader.exec_module(gen)

F16_PROBE = '''package main

func main() {
	arr := [3]int{1, 2, 3}
	for i, v := range arr {
		arr[2] = 10
		println(i, v)
	}
	s := []int{1, 2, 3}
	for i, v := range s {
		s[2] = 10
		println(i, v)
	}
}
'''


def split_pkg(src, pkg):
    """turn a generated single-file program into package `pkg` with an exported Run()"""
    s = src.replace("package main", "package " + pkg, 1)
    s = s.replace("func main() {", "func Run() uint64 {", 1)
    s = s.replace('\tprintln("acc", acc)\n}', '\tprintln("acc", acc)\n\treturn acc\n}', 1)
    return s


def run(ck):
    ck.trusted = ["Coq 8.16.1 kernel", "program generator props/C01/gen.py", "overlay harness in cl/blocks", "e2e shims (LLVM 14, GNU ld)"]
    ck.assumptions = ["the for-all-programs claim is reached by generation (sampling); the theorems cover the block-order/loop-marking validator and the models of C02/C03/C04 cover operators, bounds checks and defer",
                      "LLVM 14 at -O0 (and -O2 on println-only programs where it does not crash); LLVM 19 is not observed"]
    ck.coq_build("C01")
    ck.coq_props("LLGoV.C01.Props", "theories/C01/Props.v")
    ck.phase("coq built")
    L = e2e.LLGo(ck)
    if not L.ok:
        ck.correspondence_broken("llgo-build", L.buildlog[-2000:])
        return ck.finish()
    nprog = {"quick": 3, "thorough": 14}[ck.tier]
    nfun = {"quick": 14, "thorough": 20}[ck.tier]
    lines_total = 0
    funcs_total = 0
    differing = collections.Counter()
    samples = []
    o2_ok = 0

    def cmp_outputs(tag, a, b, src_info):
        """returns list of (line index, llgo, go) differences"""
        la, lb = a[2].splitlines(), b[2].splitlines()
        df = [(i, la[i] if i < len(la) else "<missing>", y) for i, y in enumerate(lb) if i >= len(la) or la[i] != y]
        return la, lb, df

    for pi in range(nprog):
        seed = ck.seed * 100 + pi
        src = gen.gen_program(seed, nfuncs=nfun)
        pd = os.path.join(ck.work, "p%d" % pi)
        e2e.write_module(pd, {"main.go": src})
        r2, o2 = e2e.go_build(pd, os.path.join(pd, "p_go"))
        if r2 != 0:
            ck.correspondence_broken("generator-invalid-program", o2[-800:])
            continue
        b = e2e.run_plain(os.path.join(pd, "p_go"), timeout=60)
        variants = [("O0", "-O0")]
        if pi == 0:
            variants.append(("O2", "-O2"))
        for tag, opt in variants:
            r1, o1 = L.build(pd, os.path.join(pd, "p_llgo_" + tag), opt=opt, timeout=1500)
            if r1 != 0:
                if tag == "O2":
                    ck.log("-O2 build not available here (LLVM 14):", o1[-200:].replace("\n", " "))
                    continue
                ck.violation("core-program-does-not-build", "llgo fails to build generated program seed %d: %s" % (seed, o1[-300:]), {"seed": seed, "log": o1[-1500:]})
                continue
            a = L.run_bin(os.path.join(pd, "p_llgo_" + tag), timeout=120)
            if tag == "O2":
                o2_ok += 1
            la, lb, df = cmp_outputs(tag, a, b, seed)
            lines_total += len(lb)
            funcs_total += nfun
            if len(samples) < 2:
                samples.append({"seed": seed, "opt": tag, "lines": len(lb), "tail": lb[-2:]})
            if not df and a[0] == b[0]:
                continue
            # is the difference explained by the known array-range finding?  rebuild without the mutation line
            src2 = gen.gen_program(seed, nfuncs=nfun, arr_mut=False)
            pd2 = os.path.join(ck.work, "p%d_nomut" % pi)
            e2e.write_module(pd2, {"main.go": src2})
            e2e.go_build(pd2, os.path.join(pd2, "p_go"))
            r3, o3 = L.build(pd2, os.path.join(pd2, "p_llgo"), opt=opt, timeout=1500)
            a2 = L.run_bin(os.path.join(pd2, "p_llgo"), timeout=120)
            b2 = e2e.run_plain(os.path.join(pd2, "p_go"), timeout=60)
            first = df[0] if df else (-1, "rc=%s" % a[0], "rc=%s" % b[0])
            fn = None
            for i in range(first[0], -1, -1):
                m = re.match(r"(fn\d+) ", lb[i]) if 0 <= i < len(lb) else None
                if m and i >= first[0]:
                    fn = m.group(1)
                    break
            if fn is None:
                for y in lb[max(first[0], 0):]:
                    m = re.match(r"(fn\d+) ", y)
                    if m:
                        fn = m.group(1)
                        break
            if r3 == 0 and a2[2] == b2[2] and a2[0] == b2[0]:
                key = "range-over-array-value-iterates-over-the-live-array"
            else:
                key = "core-program-output-differs"
            differing[key] += 1
            ck.violation(key, "generated program seed %d (%s), first difference at output line %d in/just before %s: llgo `%s` vs go `%s`" %
                         (seed, tag, first[0], fn, first[1][:80], first[2][:80]),
                         {"seed": seed, "opt": tag, "nfuncs": nfun, "function": fn, "line": first[0], "llgo": first[1], "go": first[2],
                          "llgo_rc": a[0], "go_rc": b[0], "regenerate": "python3 -c \"import sys;sys.path.insert(0,'/verif/props/C01');import gen;print(gen.gen_program(%d,%d))\"" % (seed, nfun)})
    ck.phase("single-package programs done")

    # split over packages: main + two generated packages
    seed = ck.seed * 100 + 50
    pa = split_pkg(gen.gen_program(seed, nfuncs=8, arr_mut=False), "pa")
    pb = split_pkg(gen.gen_program(seed + 1, nfuncs=8, arr_mut=False), "pb")
    mainsrc = 'package main\n\nimport (\n\t"verifprog/pa"\n\t"verifprog/pb"\n)\n\nfunc main() {\n\tx := pa.Run()\n\ty := pb.Run()\n\tprintln("total", x^y)\n}\n'
    pd = os.path.join(ck.work, "pmulti")
    e2e.write_module(pd, {"main.go": mainsrc, "pa/pa.go": pa, "pb/pb.go": pb})
    r1, o1 = L.build(pd, os.path.join(pd, "p_llgo"), timeout=1500)
    r2, o2 = e2e.go_build(pd, os.path.join(pd, "p_go"))
    if r2 != 0:
        ck.correspondence_broken("generator-invalid-multipkg", o2[-800:])
    elif r1 != 0:
        ck.violation("core-multipkg-does-not-build", "llgo fails to build the 3-package program: " + o1[-300:], {"seed": seed, "log": o1[-1500:]})
    else:
        a = L.run_bin(os.path.join(pd, "p_llgo"), timeout=120)
        b = e2e.run_plain(os.path.join(pd, "p_go"), timeout=60)
        la, lb, df = cmp_outputs("multi", a, b, seed)
        lines_total += len(lb)
        funcs_total += 16
        if df or a[0] != b[0]:
            f = df[0] if df else (-1, a[0], b[0])
            ck.violation("core-multipkg-output-differs", "3-package program seed %d: line %d llgo `%s` vs go `%s`" % (seed, f[0], str(f[1])[:80], str(f[2])[:80]),
                         {"seed": seed, "line": f[0], "llgo": f[1], "go": f[2]})
    # hand-written cross-package module: sealed interfaces (unexported methods promoted through embedding across
    # packages), same-named unexported methods of different packages, generics, init order, method values/expressions
    xd = os.path.join(H, "xpkg")
    files = {}
    for root, _, fs in os.walk(xd):
        for f in fs:
            if f.endswith(".go"):
                files[os.path.relpath(os.path.join(root, f), xd)] = open(os.path.join(root, f)).read()
    pd = os.path.join(ck.work, "xpkg")
    e2e.write_module(pd, files)
    r2, o2 = e2e.go_build(pd, os.path.join(pd, "p_go"))
    if r2 != 0:
        ck.correspondence_broken("xpkg-reference-build", o2[-800:])
    else:
        b = e2e.run_plain(os.path.join(pd, "p_go"), timeout=60)
        for tag, opt in (("O0", "-O0"), ("O2", "-O2")):
            r1, o1 = L.build(pd, os.path.join(pd, "p_llgo_" + tag), opt=opt, timeout=1500)
            if r1 != 0:
                if tag == "O2":
                    continue
                ck.violation("core-xpkg-does-not-build", "llgo fails to build the cross-package module: " + o1[-300:], {"log": o1[-1500:]})
                continue
            a = L.run_bin(os.path.join(pd, "p_llgo_" + tag), timeout=120)
            la, lb, df = cmp_outputs("xpkg", a, b, 0)
            lines_total += len(lb)
            if df or a[0] != b[0]:
                f = df[0] if df else (-1, a[0], b[0])
                ck.violation("core-xpkg-output-differs-" + (str(f[2]).split() or ["rc"])[0], "cross-package module (%s): line %d llgo `%s` vs go `%s`" % (tag, f[0], str(f[1])[:100], str(f[2])[:100]),
                             {"opt": tag, "line": f[0], "llgo": f[1], "go": f[2], "module": "props/C01/xpkg"})
    ck.phase("multi-package program done")

    # F16 minimal probe
    pd = os.path.join(ck.work, "f16")
    e2e.write_module(pd, {"main.go": F16_PROBE})
    r1, o1 = L.build(pd, os.path.join(pd, "p_llgo"))
    r2, o2 = e2e.go_build(pd, os.path.join(pd, "p_go"))
    if r1 == 0 and r2 == 0:
        a = L.run_bin(os.path.join(pd, "p_llgo"))
        b = e2e.run_plain(os.path.join(pd, "p_go"))
        lines_total += len(b[2].splitlines())
        if a[2] != b[2]:
            ck.violation("range-over-array-value-iterates-over-the-live-array",
                         "`for i, v := range arr { arr[2] = 10 }` over an array VALUE: llgo %s vs go %s" % (a[2].split(), b[2].split()), {"llgo": a[2], "go": b[2]})

    # ---------- cl/blocks.Infos vs the Coq model ----------
    hout = os.path.join(ck.work, "infos.jsonl")
    rc, log = ck.go_test_overlay("cl/blocks", {"zz_verif_test.go": os.path.join(H, "harness", "infos_verif_test.go")},
                                 env=dict(e2e.tc_env(L.cache), VERIF_SRC=os.path.join(ck.work, "p0", "main.go"), VERIF_OUT=hout,
                                          VERIF_N=str({"quick": 1500, "thorough": 20000}[ck.tier])),
                                 tags="llvm14,verif", extra_overlay=json.load(open(L.ov))["Replace"])
    ncfg = 0
    if rc != 0 or not os.path.exists(hout):
        ck.correspondence_broken("blocks-harness", log[-1500:])
    else:
        terms, raw = [], []
        sizes = collections.Counter()
        for l in open(hout):
            vf = json.loads(l)
            if vf.get("viol"):
                ck.violation(vf["viol"], vf.get("what", ""), vf)
                continue
            succs = vf["succs"]
            ncfg += 1
            sizes[min(len(succs) // 5 * 5, 40)] += 1
            t = "(%s, (%s, %s))" % (
                "[" + "; ".join("[" + "; ".join("%d%%nat" % x for x in ss) + "]" for ss in succs) + "]",
                "[" + "; ".join("%d%%nat" % x for x in vf["order"]) + "]",
                "[" + "; ".join("true" if k == "InLoop" else "false" for k in vf["kinds"]) + "]")
            terms.append(t)
            raw.append(vf)
        hdr = "From LLGoV Require Import C01.Model.\n"
        bad = ck.coq_mismatches(hdr, ["(%s, true)" % t for t in terms], "infos_ok", "Bool.eqb", "c01_infos", shard=300)
        if bad:
            ck.correspondence_broken("C01.Model/infos", {"n": len(bad), "first": raw[bad[0]]})
        ck.cov["distribution"]["cfg_sizes"] = dict(sizes)
    ck.phase("blocks.Infos compared")
    ck.add_cov(evaluations=lines_total + ncfg, nontrivial=funcs_total + ncfg, samples=samples,
               output_lines=lines_total, generated_functions=funcs_total, cfgs=ncfg, o2_programs=o2_ok, differing=dict(differing))
    ck.cov["rule"] = ("typed random programs (branches, loops incl. every range form, labelled break/continue, goto, switch/fallthrough, type switch, closures, "
                      "methods, embedding, interfaces, generics, structs, arrays, pointers, multiple assignment); one output line per call/trace point, "
                      "compared with the reference toolchain; distinct non-trivial = generated functions + CFGs")
    return ck.finish()
