"""C20 - SDK archive extraction stays inside its destination and preserves contents."""
import json, os, collections
from concurrent.futures import ThreadPoolExecutor
import vlib

HERE = os.path.dirname(os.path.abspath(__file__))
H = os.path.join(HERE, "harness")
PKG = "internal/crosscompile"


def cb(b):
    """byte list -> Coq term of type str"""
    if all(32 <= x < 127 and x != 34 for x in b):
        return '(bs "%s")' % "".join(chr(x) for x in b)
    return "(" + vlib.coq_bytes(bytes(b)) + ")"


def ctar(es):
    t = "tnil"
    for e in reversed(es or []):
        k = {"reg": "TReg", "dir": "TDir"}.get(e["k"], "TOther")
        t = "(tcons %s %s %s %s)" % (cb(e["name"]), k, cb(e.get("data") or []), t)
    return t


def czip(es):
    t = "znil"
    for e in reversed(es or []):
        t = "(zcons %s %s %s %s)" % (cb(e["name"]), "true" if e["k"] == "dir" else "false", cb(e.get("data") or []), t)
    return t


def ctree(tree, sandbox):
    t = "fnil"
    # the directories above the sandbox and the sandbox itself exist as well
    parts = bytes(sandbox).decode().strip("/").split("/")
    for i in range(len(parts), 0, -1):
        t = "(fdir %s %s)" % (cb(list(("/" + "/".join(parts[:i])).encode())), t)
    for nd in reversed(tree or []):
        if nd.get("dir"):
            t = "(fdir %s %s)" % (cb(nd["p"]), t)
        else:
            t = "(ffile %s %s %s)" % (cb(nd["p"]), cb(nd.get("data") or []), t)
    return t


def run(ck):
    ck.trusted = ["Coq 8.16.1 kernel (coqc, vm_compute)", "Go overlay harness props/C20/harness/fetch_verif_test.go "
                  "(archive writers/readers of the Go standard library, sandbox snapshot, independent oracle)",
                  "hand-written model coq/theories/C20/Model.v tied by correspondence",
                  "archive/tar, archive/zip, compress/gzip, path/filepath, os (upstream)"]
    ck.assumptions = ["no symbolic links inside the destination before extraction (the code never creates any: link entries are skipped)",
                      "Unix path rules (separator /, no volume names)", "destination argument is an absolute path",
                      "file modes and times are not compared; extractTarXz (external tar) is not modelled"]
    ck.coq_build("C20")
    ck.coq_props("LLGoV.C20.Props", "theories/C20/Props.v")

    n = {"quick": 300, "thorough": 5000}[ck.tier]
    out = os.path.join(ck.work, "c20.jsonl")
    rc, log = ck.go_test_overlay(PKG, {"zz_verif_test.go": os.path.join(H, "fetch_verif_test.go")}, run="TestVerif(Lock)?$",
                                 env={"VERIF_OUT": out, "VERIF_N": str(n),
                                      "VERIF_LOCK_ROUNDS": {"quick": "40", "thorough": "400"}[ck.tier]})
    if rc != 0 or not os.path.exists(out):
        ck.correspondence_broken("harness:" + PKG, log[-1500:])
        return ck.finish()
    recs = collections.defaultdict(list)
    for line in open(out):
        r = json.loads(line)
        recs[r["kind"]].append(r)
    for v in recs["viol"]:
        ck.violation(v["key"], "%s %s: %s" % (v.get("fmt"), v.get("class"), v.get("what", "")), v)

    # concurrency smoke test of the lock protocol (sampled schedules only; no theorem behind it)
    lock_rounds = 0
    lp = out + ".lock.jsonl"
    if os.path.exists(lp):
        for line in open(lp):
            r = json.loads(line)
            lock_rounds += 1
            if r["problems"]:
                ck.violation("lock-incomplete-copy", "%d concurrent checkDownloadAndExtractLib calls: %s" % (r["callers"], r["problems"]), r)
    else:
        ck.correspondence_broken("harness:lock-smoke-test", "no output")

    hdr = "From Coq Require Import String.\nFrom LLGoV Require Import C20.Model.\nLocal Open Scope N_scope.\n"
    total = 0
    classes = collections.Counter()

    jobs = []

    def compare(name, rs, term, model, eqb, show, shard):
        nonlocal total
        terms = [term(r) for r in rs]
        total += len(terms)

        def job():
            bad = ck.coq_mismatches(hdr, terms, model, eqb, "c20_" + name, shard=shard)
            if bad:
                ck.correspondence_broken("C20.Model/" + name, {"n_mismatch": len(bad), "first": show(rs[bad[0]])})
        jobs.append(job)

    def s(b):
        return bytes(b or []).decode("latin-1")

    compare("clean", recs["clean"], lambda r: "mk2 %s %s" % (cb(r.get("in") or []), cb(r["out"] or [])),
            "clean", "str_eqb", lambda r: {"in": s(r.get("in")), "filepath.Clean": s(r["out"])}, 500)
    compare("join", recs["join"], lambda r: "mk3 %s %s %s" % (cb(r.get("a") or []), cb(r.get("b") or []), cb(r["out"] or [])),
            "(fun x => join2 (fst x) (snd x))", "str_eqb",
            lambda r: {"a": s(r.get("a")), "b": s(r.get("b")), "filepath.Join": s(r["out"])}, 400)

    def show_arch(r):
        return {"class": r.get("class"), "dest": s(r["dest"]), "ok": r["ok"], "err": r.get("err"),
                "entries": [(s(e["name"]), e["k"], s(e.get("data"))) for e in r["entries"]],
                "tree": [(s(nd["p"]), "dir" if nd.get("dir") else s(nd.get("data"))) for nd in r.get("tree") or []]}

    compare("targz", recs["tar"], lambda r: "mkt %s %s %s %s" % (cb(r["dest"]), ctar(r["entries"]), ctree(r.get("tree"), r["sandbox"]),
                                                                 "true" if r["ok"] else "false"),
            "run_targz", "outcome_eqb", show_arch, 60)
    compare("zip", recs["zip"], lambda r: "mkz %s %s %s %s" % (cb(r["dest"]), czip(r["entries"]), ctree(r.get("tree"), r["sandbox"]),
                                                               "true" if r["ok"] else "false"),
            "run_zip", "outcome_eqb", show_arch, 60)
    with ThreadPoolExecutor(4) as ex:
        list(ex.map(lambda j: j(), jobs))
    distinct = set()
    for k in ("tar", "zip"):
        for r in recs[k]:
            classes["%s:%s:%s" % (k, r.get("class", "").split(":")[0] + (":" + r["class"].split(":")[1] if r.get("class", "").startswith("hostile") else ""),
                                  "ok" if r["ok"] else "err")] += 1
            distinct.add(json.dumps([k, r["entries"]]))
    classes["filepath.Clean"] = len(recs["clean"])
    classes["filepath.Join"] = len(recs["join"])
    classes["skipped(writer refuses name)"] = len(recs["skip"])
    classes["lock-protocol rounds (2-4 concurrent callers, httptest)"] = lock_rounds
    samples = []
    for k in ("tar", "zip"):
        if recs[k]:
            samples.append({k: show_arch(recs[k][len(recs[k]) // 3])})
    ck.add_cov(evaluations=total, nontrivial=len(distinct), samples=samples, classes=dict(classes))
    ck.cov["rule"] = ("filepath.Clean on every string over {/ . a} up to length 6 and random longer mixes, filepath.Join on random pairs "
                      "(validates the lexical model); archives with names from {plain, nested, .. first/middle/deep/two levels/back inside, "
                      "sibling sharing the prefix, empty, ., ./, absolute, mixed}, explicit and implicit parents, duplicates, "
                      "dir-vs-file clashes, link entries, contents incl. empty and binary, written with archive/tar+gzip and archive/zip, "
                      "unpacked by the real extractTarGz/extractZip into <sandbox>/l1/l2/l3/dest; the whole sandbox is snapshotted and compared "
                      "with the Coq model (vm_compute) and with the harness' independent oracle; distinct = distinct entry lists")
    return ck.finish()
