package crosscompile

// Injected by /verif (go test -overlay); not part of the repository.
//
// C20: SDK archive extraction stays inside its destination and preserves contents.
// (1) filepath.Clean / filepath.Join on many paths (the lexical model in Coq is
//     validated against them), (2) generated tar.gz and zip archives unpacked by
//     the real extractTarGz / extractZip into <sandbox>/l1/l2/l3/dest, the whole
//     sandbox is snapshotted afterwards, (3) the property oracle: nothing outside
//     dest, escaping entries rejected, well-formed archives reproduced exactly.

import (
	"archive/tar"
	"archive/zip"
	"bytes"
	"compress/gzip"
	"encoding/json"
	"fmt"
	"io"
	"net/http"
	"net/http/httptest"
	"os"
	"path/filepath"
	"sort"
	"strconv"
	"strings"
	"testing"
)

type vrng struct{ s uint64 }

func (r *vrng) next() uint64 {
	r.s += 0x9e3779b97f4a7c15
	z := r.s
	z = (z ^ (z >> 30)) * 0xbf58476d1ce4e5b9
	z = (z ^ (z >> 27)) * 0x94d049bb133111eb
	return z ^ (z >> 31)
}
func (r *vrng) n(k int) int { return int(r.next() % uint64(k)) }

func vb(s string) []int {
	out := make([]int, len(s))
	for i := 0; i < len(s); i++ {
		out[i] = int(s[i])
	}
	return out
}

type ventry struct {
	Name string `json:"-"`
	NameB []int `json:"name"`
	K    string `json:"k"` // reg, dir, other
	Link string `json:"link,omitempty"` // target of a link entry (not used by the model: links are skipped)
	Data []int  `json:"data"`
	data string
}

type vnodeT struct {
	P    []int `json:"p"`
	Dir  bool  `json:"dir"`
	Data []int `json:"data,omitempty"`
}

type vrec struct {
	Kind    string   `json:"kind"`
	Class   string   `json:"class,omitempty"`
	In      []int    `json:"in,omitempty"`
	A       []int    `json:"a,omitempty"`
	B       []int    `json:"b,omitempty"`
	Out     []int    `json:"out"`
	Dest    []int    `json:"dest,omitempty"`
	Sandbox []int    `json:"sandbox,omitempty"`
	Entries []ventry `json:"entries,omitempty"`
	Ok      bool     `json:"ok"`
	Err     string   `json:"err,omitempty"`
	Tree    []vnodeT `json:"tree,omitempty"`
	Key     string   `json:"key,omitempty"`
	What    string   `json:"what,omitempty"`
	Fmt     string   `json:"fmt,omitempty"`
}

var venc *json.Encoder

// ---------- archive construction ----------

type vspec struct {
	name string
	kind string // reg, dir, sym, link
	data string // for sym / link entries: the link target
}

func vwriteTarGz(path string, es []vspec) error {
	f, err := os.Create(path)
	if err != nil {
		return err
	}
	defer f.Close()
	gz := gzip.NewWriter(f)
	tw := tar.NewWriter(gz)
	for _, e := range es {
		h := &tar.Header{Name: e.name, Mode: 0o644, Format: tar.FormatPAX}
		switch e.kind {
		case "reg":
			h.Typeflag = tar.TypeReg
			h.Size = int64(len(e.data))
		case "dir":
			h.Typeflag = tar.TypeDir
			h.Mode = 0o755
		case "sym":
			h.Typeflag = tar.TypeSymlink
			h.Linkname = "target"
		case "link":
			h.Typeflag = tar.TypeLink
			h.Linkname = "target"
		}
		if e.data != "" && (e.kind == "sym" || e.kind == "link") {
			h.Linkname = e.data
		}
		if err := tw.WriteHeader(h); err != nil {
			return err
		}
		if e.kind == "reg" {
			if _, err := tw.Write([]byte(e.data)); err != nil {
				return err
			}
		}
	}
	if err := tw.Close(); err != nil {
		return err
	}
	return gz.Close()
}

// what archive/tar hands to extractTarGz
func vreadTarGz(path string) ([]ventry, error) {
	f, err := os.Open(path)
	if err != nil {
		return nil, err
	}
	defer f.Close()
	gz, err := gzip.NewReader(f)
	if err != nil {
		return nil, err
	}
	tr := tar.NewReader(gz)
	out := []ventry{}
	for {
		h, err := tr.Next()
		if err == io.EOF {
			return out, nil
		}
		if err != nil {
			return nil, err
		}
		e := ventry{Name: h.Name, NameB: vb(h.Name), K: "other", Data: []int{}, Link: h.Linkname}
		switch h.Typeflag {
		case tar.TypeReg:
			e.K = "reg"
			b, _ := io.ReadAll(tr)
			e.Data = vb(string(b))
			e.data = string(b)
		case tar.TypeDir:
			e.K = "dir"
		}
		out = append(out, e)
	}
}

func vwriteZip(path string, es []vspec) error {
	f, err := os.Create(path)
	if err != nil {
		return err
	}
	defer f.Close()
	zw := zip.NewWriter(f)
	for _, e := range es {
		name := e.name
		if e.kind == "dir" && !strings.HasSuffix(name, "/") {
			name += "/"
		}
		w, err := zw.CreateHeader(&zip.FileHeader{Name: name, Method: zip.Deflate})
		if err != nil {
			return err
		}
		if e.kind != "dir" {
			if _, err := w.Write([]byte(e.data)); err != nil {
				return err
			}
		}
	}
	return zw.Close()
}

func vreadZip(path string) ([]ventry, error) {
	r, err := zip.OpenReader(path)
	if err != nil {
		return nil, err
	}
	defer r.Close()
	out := []ventry{}
	for _, f := range r.File {
		e := ventry{Name: f.Name, NameB: vb(f.Name), K: "reg", Data: []int{}}
		if f.FileInfo().IsDir() {
			e.K = "dir"
		} else {
			rc, err := f.Open()
			if err != nil {
				return nil, err
			}
			b, _ := io.ReadAll(rc)
			rc.Close()
			e.Data = vb(string(b))
			e.data = string(b)
		}
		out = append(out, e)
	}
	return out, nil
}

// ---------- snapshot ----------

func vsnapshot(root string, skip string) ([]vnodeT, map[string]string) {
	nodes := []vnodeT{}
	m := map[string]string{} // path -> "D" or "F"+content
	filepath.Walk(root, func(p string, info os.FileInfo, err error) error {
		if err != nil {
			return nil
		}
		if p == root {
			return nil
		}
		if p == skip {
			return filepath.SkipDir
		}
		if info.Mode()&os.ModeSymlink != 0 { // filepath.Walk uses Lstat: links are not followed
			t, _ := os.Readlink(p)
			nodes = append(nodes, vnodeT{P: vb(p), Data: vb("SYMLINK -> " + t)})
			m[p] = "L" + t
		} else if info.IsDir() {
			nodes = append(nodes, vnodeT{P: vb(p), Dir: true})
			m[p] = "D"
		} else {
			b, _ := os.ReadFile(p)
			nodes = append(nodes, vnodeT{P: vb(p), Data: vb(string(b))})
			m[p] = "F" + string(b)
		}
		return nil
	})
	return nodes, m
}

// ---------- name generators ----------

var vsegs = []string{"a", "b", "c.txt", "d", "lib", ".hid", "x..", "..y", "...", "a b"}
var vdata = []string{"", "x", "hello", "0123456789", "AB", "line1\nline2\n", "\x00\x01\xff", "zzzzzzzzzzzzzzzz"}

func vplain(r *vrng, maxDepth int) string {
	d := 1 + r.n(maxDepth)
	parts := []string{}
	for i := 0; i < d; i++ {
		parts = append(parts, vsegs[r.n(len(vsegs))])
	}
	return strings.Join(parts, "/")
}

// at most 3 ".." per name: dest is four levels below the sandbox, so even an
// implementation without any check stays inside the sandbox
func vhostile(r *vrng, sandbox string) (string, string) {
	switch r.n(12) {
	case 0:
		return "../evil", "dotdot-first"
	case 1:
		return "a/../../evil", "dotdot-middle"
	case 2:
		return "a/b/../../../up1", "dotdot-deep"
	case 3:
		return "../../up2/x", "dotdot-two"
	case 4:
		return "a/..", "resolves-to-dest"
	case 5:
		return "", "empty"
	case 6:
		return ".", "dot"
	case 7:
		return "./", "dot-slash"
	case 8:
		return sandbox + "/abs/x", "absolute"
	case 9:
		return "../dest/in", "dotdot-back-inside"
	case 10:
		return "../destx", "sibling-with-dest-prefix"
	default:
		// random mix of segments with up to 3 ..
		parts := []string{}
		dd := 0
		k := 1 + r.n(5)
		for i := 0; i < k; i++ {
			switch r.n(5) {
			case 0:
				if dd < 3 {
					parts = append(parts, "..")
					dd++
				}
			case 1:
				parts = append(parts, ".")
			case 2:
				parts = append(parts, "")
			default:
				parts = append(parts, vsegs[r.n(4)])
			}
		}
		return strings.Join(parts, "/"), "mixed"
	}
}

type varch struct {
	class string
	es    []vspec
}

func vgenArchive(r *vrng, sandbox string, it int) varch {
	switch c := r.n(10); {
	case c < 3: // well-formed, flat or nested with explicit directories first
		class := "wf-explicit-dirs"
		es := []vspec{}
		seen := map[string]bool{}
		k := 1 + r.n(5)
		for i := 0; i < k; i++ {
			name := vplain(r, 3)
			parts := strings.Split(name, "/")
			clash := false
			for j := 1; j <= len(parts); j++ {
				if seen["F:"+strings.Join(parts[:j], "/")] {
					clash = true
				}
			}
			if clash || seen["D:"+name] || seen["F:"+name] {
				continue
			}
			for j := 1; j < len(parts); j++ {
				d := strings.Join(parts[:j], "/")
				if !seen["D:"+d] {
					seen["D:"+d] = true
					es = append(es, vspec{d, "dir", ""})
				}
			}
			seen["F:"+name] = true
			es = append(es, vspec{name, "reg", vdata[r.n(len(vdata))]})
		}
		if r.n(3) == 0 {
			d := "emptydir" + strconv.Itoa(r.n(3))
			if !seen["D:"+d] && !seen["F:"+d] {
				es = append(es, vspec{d, "dir", ""})
			}
		}
		return varch{class, es}
	case c < 5: // well-formed, parents implicit (no directory entries)
		es := []vspec{}
		seen := map[string]bool{}
		k := 1 + r.n(4)
		for i := 0; i < k; i++ {
			name := vplain(r, 3)
			parts := strings.Split(name, "/")
			clash := false
			for j := 1; j <= len(parts); j++ {
				if seen["F:"+strings.Join(parts[:j], "/")] {
					clash = true
				}
			}
			if clash || seen["D:"+name] {
				continue
			}
			for j := 1; j < len(parts); j++ {
				seen["D:"+strings.Join(parts[:j], "/")] = true
			}
			seen["F:"+name] = true
			es = append(es, vspec{name, "reg", vdata[r.n(len(vdata))]})
		}
		return varch{"wf-implicit-parents", es}
	case c < 6: // as written by tar -c . : leading ./ entry and ./-prefixed names
		es := []vspec{{"./", "dir", ""}, {"./a", "dir", ""}, {"./a/f", "reg", vdata[r.n(len(vdata))]}, {"./g", "reg", vdata[r.n(len(vdata))]}}
		return varch{"wf-dot-slash-root", es[r.n(2):]}
	case c < 7: // duplicate member: the later one replaces the earlier one
		name := vplain(r, 2)
		d1, d2 := vdata[r.n(len(vdata))], vdata[r.n(len(vdata))]
		es := []vspec{}
		if strings.Contains(name, "/") {
			parts := strings.Split(name, "/")
			for j := 1; j < len(parts); j++ {
				es = append(es, vspec{strings.Join(parts[:j], "/"), "dir", ""})
			}
		}
		es = append(es, vspec{name, "reg", d1}, vspec{"other", "reg", "o"}, vspec{name, "reg", d2})
		return varch{"duplicate", es}
	case c < 8: // directory-vs-file clashes
		base := vsegs[r.n(4)]
		var es []vspec
		switch r.n(4) {
		case 0:
			es = []vspec{{base, "reg", "f"}, {base + "/in", "reg", "g"}}
		case 1:
			es = []vspec{{base, "dir", ""}, {base + "/in", "reg", "g"}, {base, "reg", "f"}}
		case 2:
			es = []vspec{{base, "reg", "f"}, {base, "dir", ""}}
		default:
			es = []vspec{{base, "dir", ""}, {base, "dir", ""}, {base + "/", "dir", ""}, {base + "/k", "reg", "1"}}
		}
		return varch{"clash", es}
	case c < 9: // symbolic-link entries, followed by entries below the link
		// (all targets stay inside the sandbox: dest is four levels below it)
		type lv struct{ cl, target string }
		vars := []lv{
			{"inside", "sub"}, {"inside-dot", "./sub/../sub"},
			{"escape-parent", ".."}, {"escape-two", "../.."}, {"escape-via-inside", "sub/../../.."},
			{"absolute", sandbox + "/l1/l2"}, {"absolute-dest-parent", sandbox + "/l1/l2/l3"},
		}
		v := vars[r.n(len(vars))]
		es := []vspec{{name: "sub", kind: "dir"}, {name: "sub/keep", kind: "reg", data: "k"}}
		switch r.n(3) {
		case 0: // link, then a file below it
			es = append(es, vspec{"link", "sym", v.target}, vspec{"link/evil", "reg", "EVIL"})
		case 1: // chained: b -> a/.. where a is itself a link
			es = append(es, vspec{"a", "sym", v.target}, vspec{"b", "sym", "a/."},
				vspec{"b/evil", "reg", "EVIL"})
			v.cl += "-chained"
		default: // link in a sub-directory, a directory and a file below it
			es = append(es, vspec{"sub/l", "sym", v.target}, vspec{"sub/l/d", "dir", ""},
				vspec{"sub/l/d/evil", "reg", "EVIL"})
			v.cl += "-nested"
		}
		if r.n(2) == 0 {
			es = append(es, vspec{"after", "reg", "later"})
		}
		return varch{"symlink:" + v.cl, es}
	default: // hostile name somewhere among benign entries; links and other types
		es := []vspec{}
		k := r.n(3)
		for i := 0; i < k; i++ {
			es = append(es, vspec{"ok" + strconv.Itoa(i), "reg", vdata[r.n(len(vdata))]})
		}
		name, cl := vhostile(r, sandbox)
		kind := []string{"reg", "reg", "reg", "dir", "sym", "link"}[r.n(6)]
		es = append(es, vspec{name, kind, "EVIL"})
		if r.n(2) == 0 {
			es = append(es, vspec{"after", "reg", "later"})
		}
		return varch{"hostile:" + cl + ":" + kind, es}
	}
}

// ---------- lexical helpers of the oracle (independent of filepath) ----------

// resolve name against dest component-wise, the way the OS would if the name were
// passed unchanged: returns the component list and whether it stays strictly below dest
func vunder(dest, p string) bool {
	return strings.HasPrefix(p, dest+"/")
}

// expected tree of a well-formed archive, from the entries alone
func vexpected(dest string, es []ventry) map[string]string {
	m := map[string]string{}
	for _, e := range es {
		parts := []string{}
		for _, s := range strings.Split(e.Name, "/") {
			if s != "" && s != "." {
				parts = append(parts, s)
			}
		}
		for j := 1; j < len(parts); j++ {
			m[dest+"/"+strings.Join(parts[:j], "/")] = "D"
		}
		if len(parts) == 0 {
			continue
		}
		full := dest + "/" + strings.Join(parts, "/")
		switch e.K {
		case "dir":
			m[full] = "D"
		case "reg":
			m[full] = "F" + e.data
		}
	}
	return m
}

func TestVerif(t *testing.T) {
	if os.Getenv("VERIF_OUT") == "" {
		t.Skip("VERIF_OUT not set")
	}
	seed, _ := strconv.ParseUint(os.Getenv("VERIF_SEED"), 10, 64)
	n, _ := strconv.Atoi(os.Getenv("VERIF_N"))
	if n == 0 {
		n = 300
	}
	f, err := os.Create(os.Getenv("VERIF_OUT"))
	if err != nil {
		t.Fatal(err)
	}
	defer f.Close()
	venc = json.NewEncoder(f)
	r := &vrng{s: seed*15485863 + 20}

	// ---- 1. filepath.Clean / Join ----
	alpha := []byte{'/', '.', 'a'}
	var rec func(prefix []byte, depth int)
	rec = func(prefix []byte, depth int) {
		venc.Encode(vrec{Kind: "clean", In: vb(string(prefix)), Out: vb(filepath.Clean(string(prefix)))})
		if depth == 0 {
			return
		}
		for _, c := range alpha {
			rec(append(append([]byte{}, prefix...), c), depth-1)
		}
	}
	rec(nil, 6)
	alpha2 := []string{"/", "/", ".", "..", "a", "bc", "...", ".a", "a.", "//", "/./", "/../"}
	for i := 0; i < 3*n; i++ {
		var b strings.Builder
		k := r.n(9)
		for j := 0; j < k; j++ {
			b.WriteString(alpha2[r.n(len(alpha2))])
		}
		s := b.String()
		venc.Encode(vrec{Kind: "clean", In: vb(s), Out: vb(filepath.Clean(s))})
		var b2 strings.Builder
		k = r.n(7)
		for j := 0; j < k; j++ {
			b2.WriteString(alpha2[r.n(len(alpha2))])
		}
		s2 := b2.String()
		venc.Encode(vrec{Kind: "join", A: vb(s), B: vb(s2), Out: vb(filepath.Join(s, s2))})
	}

	// ---- 2. archives ----
	root, err := os.MkdirTemp("", "c20")
	if err != nil {
		t.Fatal(err)
	}
	defer os.RemoveAll(root)
	viol := func(key, what, format, class string, dest string, es []ventry, ok bool, errs string, tree []vnodeT) {
		venc.Encode(vrec{Kind: "viol", Key: key, What: what, Fmt: format, Class: class, Dest: vb(dest), Entries: es, Ok: ok, Err: errs, Tree: tree})
	}
	for it := 0; it < n; it++ {
		for _, format := range []string{"tar", "zip"} {
			sandbox := filepath.Join(root, strconv.Itoa(it)+format[:1])
			arch := filepath.Join(sandbox, "arch")
			dest := filepath.Join(sandbox, "l1", "l2", "l3", "dest")
			if err := os.MkdirAll(arch, 0o755); err != nil {
				t.Fatal(err)
			}
			if err := os.MkdirAll(dest, 0o755); err != nil {
				t.Fatal(err)
			}
			a := vgenArchive(r, sandbox, it)
			if it < len(vfixedArch) {
				a = vfixedArch[it]
			}
			var es []ventry
			var xerr error
			destArg := dest
			if r.n(8) == 0 {
				destArg = dest + "/" // un-cleaned destination argument
			}
			if format == "tar" {
				ap := filepath.Join(arch, "a.tar.gz")
				if err := vwriteTarGz(ap, a.es); err != nil {
					venc.Encode(vrec{Kind: "skip", Class: a.class, Err: "tar writer: " + err.Error()})
					continue
				}
				if es, err = vreadTarGz(ap); err != nil {
					venc.Encode(vrec{Kind: "skip", Class: a.class, Err: "tar reader: " + err.Error()})
					continue
				}
				xerr = extractTarGz(ap, destArg)
			} else {
				specs := []vspec{}
				for _, e := range a.es {
					if e.kind == "sym" || e.kind == "link" {
						e.kind = "reg"
					}
					specs = append(specs, e)
				}
				ap := filepath.Join(arch, "a.zip")
				if err := vwriteZip(ap, specs); err != nil {
					venc.Encode(vrec{Kind: "skip", Class: a.class, Err: "zip writer: " + err.Error()})
					continue
				}
				if es, err = vreadZip(ap); err != nil {
					venc.Encode(vrec{Kind: "skip", Class: a.class, Err: "zip reader: " + err.Error()})
					continue
				}
				xerr = extractZip(ap, destArg)
			}
			tree, m := vsnapshot(sandbox, arch)
			ok := xerr == nil
			errs := ""
			if xerr != nil {
				errs = xerr.Error()
				errs = strings.ReplaceAll(errs, root, "<root>")
			}
			venc.Encode(vrec{Kind: format, Class: a.class, Dest: vb(destArg), Sandbox: vb(sandbox), Entries: es, Ok: ok, Err: errs, Tree: tree})

			// ---- property oracle on the implementation ----
			// (a) nothing outside dest
			chain := map[string]bool{filepath.Join(sandbox, "l1"): true, filepath.Join(sandbox, "l1", "l2"): true,
				filepath.Join(sandbox, "l1", "l2", "l3"): true, dest: true}
			outside := []string{}
			for p := range m {
				if !chain[p] && !vunder(dest, p) {
					outside = append(outside, strings.TrimPrefix(p, sandbox))
				}
			}
			sort.Strings(outside)
			hasDotDot := false
			for _, e := range es {
				for _, s := range strings.Split(e.Name, "/") {
					if s == ".." {
						hasDotDot = true
					}
				}
			}
			if len(outside) > 0 {
				key := format + "-escape"
				if hasDotDot {
					key = format + "-escape-dotdot"
				}
				viol(key, fmt.Sprintf("created outside the destination: %v", outside), format, a.class, destArg, es, ok, errs, tree)
			}
			// (a') no entry may resolve outside dest: every symbolic link that now exists below dest
			// must point (its target read relative to the link's directory, .. stepping up) below dest
			for p, v := range m {
				if v[0] != 'L' || !vunder(dest, p) {
					continue
				}
				t := v[1:]
				base := filepath.Dir(p)
				if strings.HasPrefix(t, "/") {
					base = "/"
				}
				st := strings.Split(strings.Trim(base, "/"), "/")
				if base == "/" {
					st = []string{}
				}
				for _, sgm := range strings.Split(t, "/") {
					switch sgm {
					case "", ".":
					case "..":
						if len(st) > 0 {
							st = st[:len(st)-1]
						}
					default:
						st = append(st, sgm)
					}
				}
				res := "/" + strings.Join(st, "/")
				if res != dest && !vunder(dest, res) {
					viol(format+"-symlink-target-outside", fmt.Sprintf("extraction created the symbolic link %s -> %s, which resolves to %s outside the destination",
						strings.TrimPrefix(p, sandbox), t, strings.TrimPrefix(res, sandbox)), format, a.class, destArg, es, ok, errs, tree)
				}
			}
			// (b) an entry whose final lexical position (name applied to dest component by
			// component, .. stepping up) is not strictly below dest must be rejected
			escaping := false
			destParts := strings.Split(strings.Trim(dest, "/"), "/")
			for _, e := range es {
				st := append([]string{}, destParts...)
				for _, s := range strings.Split(e.Name, "/") {
					switch s {
					case "", ".":
					case "..":
						if len(st) > 0 {
							st = st[:len(st)-1]
						}
					default:
						st = append(st, s)
					}
				}
				under := len(st) > len(destParts)
				for i := range destParts {
					if i >= len(st) || st[i] != destParts[i] {
						under = false
					}
				}
				isDest := len(st) == len(destParts)
				for i := range destParts {
					if i >= len(st) || st[i] != destParts[i] {
						isDest = false
					}
				}
				if !under && !isDest { // an entry naming the destination itself creates nothing outside
					escaping = true
				}
			}
			if escaping && ok {
				key := format + "-escaping-entry-accepted"
				viol(key, "an entry that leaves the destination was not rejected", format, a.class, destArg, es, ok, errs, tree)
			}
			// (c) well-formed archives are reproduced exactly
			if strings.HasPrefix(a.class, "wf-") || a.class == "duplicate" {
				exp := vexpected(dest, es)
				for p := range chain {
					exp[p] = "D"
				}
				same := ok && len(exp) == len(m)
				diff := ""
				if same {
					for p, v := range exp {
						if m[p] != v {
							same = false
							diff = fmt.Sprintf("%s: want %q have %q", strings.TrimPrefix(p, dest), v, m[p])
							break
						}
					}
				}
				if !same {
					// narrower keys for the shapes of the four repaired defects (F14), so that a
					// regression is reported by name
					key := format + "-wellformed-not-reproduced"
					switch {
					case a.class == "wf-implicit-parents" && !ok && strings.Contains(errs, "no such file or directory"):
						key = format + "-parent-dirs-not-created"
					case a.class == "wf-dot-slash-root" && !ok && strings.Contains(errs, "illegal file path"):
						key = format + "-root-entry-rejected"
					case a.class == "duplicate" && ok && strings.HasPrefix(diff, "/") && vstaleTail(exp, m):
						key = format + "-rewritten-file-stale-tail"
					}
					viol(key, "well-formed archive not reproduced exactly: ok="+strconv.FormatBool(ok)+" "+errs+" "+diff, format, a.class, destArg, es, ok, errs, tree)
				}
			}
		}
	}
}

// the only difference: some file holds the expected bytes followed by the tail of an earlier, longer version
func vstaleTail(exp, have map[string]string) bool {
	if len(exp) != len(have) {
		return false
	}
	n := 0
	for p, v := range exp {
		h := have[p]
		if h == v {
			continue
		}
		if len(v) > 0 && v[0] == 'F' && len(h) > len(v) && strings.HasPrefix(h, v) {
			n++
			continue
		}
		return false
	}
	return n > 0
}

// fixed archives run first: the witnesses of the Coq refutation theorems
var vfixedArch = []varch{
	{"hostile:dotdot-first:reg", []vspec{{"../evil", "reg", "EVIL"}}},
	{"wf-implicit-parents", []vspec{{"a/b.txt", "reg", "hello"}}},
	{"duplicate", []vspec{{"f", "reg", "0123456789"}, {"f", "reg", "AB"}}},
	{"wf-dot-slash-root", []vspec{{"./", "dir", ""}, {"./g", "reg", "x"}}},
	{"wf-explicit-dirs", []vspec{{"a", "dir", ""}, {"a/b.txt", "reg", "hello"}, {"c", "reg", ""}}},
	{"symlink:escape-two", []vspec{{"link", "sym", "../.."}, {"link/evil", "reg", "EVIL"}}},
	{"symlink:inside", []vspec{{"sub", "dir", ""}, {"in", "sym", "sub"}, {"in/f", "reg", "x"}}},
}

var _ = bytes.NewReader

// ---------- concurrency smoke test of the lock protocol ----------
// 2-4 goroutines ask for the same library at once (loopback server); afterwards
// the destination must hold exactly one complete copy and no temporary
// directories or lock files may be left behind.  Real schedules are sampled only.
func TestVerifLock(t *testing.T) {
	if os.Getenv("VERIF_OUT") == "" {
		t.Skip("VERIF_OUT not set")
	}
	rounds, _ := strconv.Atoi(os.Getenv("VERIF_LOCK_ROUNDS"))
	if rounds == 0 {
		rounds = 30
	}
	f, err := os.OpenFile(os.Getenv("VERIF_OUT")+".lock.jsonl", os.O_CREATE|os.O_WRONLY|os.O_TRUNC, 0o644)
	if err != nil {
		t.Fatal(err)
	}
	defer f.Close()
	enc := json.NewEncoder(f)
	root, err := os.MkdirTemp("", "c20l")
	if err != nil {
		t.Fatal(err)
	}
	defer os.RemoveAll(root)
	files := map[string]string{"lib-1.0/a.c": "int a;\n", "lib-1.0/inc/a.h": "#define A 1\n", "lib-1.0/big": strings.Repeat("0123456789abcdef", 4096)}
	names := []string{"lib-1.0/a.c", "lib-1.0/inc/a.h", "lib-1.0/big"}
	specs := []vspec{{"lib-1.0", "dir", ""}, {"lib-1.0/inc", "dir", ""}}
	for _, n := range names {
		specs = append(specs, vspec{n, "reg", files[n]})
	}
	ap := filepath.Join(root, "lib-1.0.tar.gz")
	if err := vwriteTarGz(ap, specs); err != nil {
		t.Fatal(err)
	}
	blob, _ := os.ReadFile(ap)
	srv := vserve(blob)
	defer srv.Close()
	for round := 0; round < rounds; round++ {
		base := filepath.Join(root, "r"+strconv.Itoa(round))
		dst := filepath.Join(base, "cache", "lib")
		k := 2 + round%3
		errs := make([]error, k)
		done := make(chan int, k)
		for g := 0; g < k; g++ {
			go func(g int) {
				errs[g] = checkDownloadAndExtractLib(srv.URL+"/lib-1.0.tar.gz", dst, "lib-1.0")
				done <- g
			}(g)
		}
		for g := 0; g < k; g++ {
			<-done
		}
		problems := []string{}
		for g, e := range errs {
			if e != nil {
				problems = append(problems, fmt.Sprintf("caller %d: %v", g, e))
			}
		}
		for _, n := range names {
			b, err := os.ReadFile(filepath.Join(dst, strings.TrimPrefix(n, "lib-1.0/")))
			if err != nil || string(b) != files[n] {
				problems = append(problems, "incomplete: "+n)
			}
		}
		ents, _ := os.ReadDir(filepath.Join(base, "cache"))
		left := []string{}
		for _, e := range ents {
			if e.Name() != "lib" {
				left = append(left, e.Name())
			}
		}
		if len(left) > 0 {
			problems = append(problems, fmt.Sprintf("left behind: %v", left))
		}
		enc.Encode(map[string]any{"kind": "lock", "round": round, "callers": k, "problems": problems})
	}
}

func vserve(blob []byte) *httptest.Server {
	return httptest.NewServer(http.HandlerFunc(func(w http.ResponseWriter, r *http.Request) {
		w.Write(blob)
	}))
}
