"""C02 - numeric operators and conversions exact for every operand value.

T2: one Go function per (operator, operand type, count/target type) is compiled by the
working tree's cl+ssa (lib/verifgen); the IR of each is translated to an LLIR term
(lib/ll2v.py) and Coq checks func_eqb ir (recipe key) = true; the theorems of
C02/Props.v are about the recipes (all widths, all operand values).
E: a table-driven evaluator compiled by llgo and by go on a boundary x random
operand pool (also floats/complex, which have no theorem)."""
import os, re, json, hashlib, itertools
import vlib, e2e, ll2v

INTS = [("int8", 8, True), ("int16", 16, True), ("int32", 32, True), ("int64", 64, True),
        ("uint8", 8, False), ("uint16", 16, False), ("uint32", 32, False), ("uint64", 64, False),
        ("int", 64, True), ("uint", 64, False), ("uintptr", 64, False)]
BINOPS = [("add", "+", "GAdd"), ("sub", "-", "GSub"), ("mul", "*", "GMul"), ("quo", "/", "GQuo"),
          ("rem", "%", "GRem"), ("and", "&", "GAnd"), ("or", "|", "GOr"), ("xor", "^", "GXor"),
          ("andnot", "&^", "GAndNot")]
CMPS = [("eq", "==", "GEq"), ("ne", "!=", "GNe"), ("lt", "<", "GLt"), ("le", "<=", "GLe"),
        ("gt", ">", "GGt"), ("ge", ">=", "GGe")]
SHIFTS = [("shl", "<<", "GShl"), ("shr", ">>", "GShr")]
UNOPS = [("neg", "-", "GNeg"), ("not", "^", "GNot")]


def ity(t):
    return "{| bits := %d; sg := %s |}" % (t[1], "true" if t[2] else "false")


def gen_const_functions():
    """operators with one constant operand (ssa.Builder takes different paths when it sees a constant divisor,
    dividend or count); compared end to end only"""
    fs = []
    for t in INTS:
        n, w, sg = t
        mn = "-1 << %d" % (w - 1) if sg else "0"
        cases = [("q3", "x / 3"), ("r3", "x % 3"), ("q7", "x / 7"), ("shl3", "x << 3"), ("shrw1", "x >> %d" % (w - 1)),
                 ("shl0", "x << 0"), ("c1shl", "1 << (x & 127)"), ("cshr", "%s(100) >> (x & 127)" % n),
                 ("cdiv", "%s(100) / x" % n), ("crem", "%s(100) %% x" % n), ("andc", "x &^ 15"), ("mulc", "x * 37")]
        if sg:
            cases += [("qm1", "x / -1"), ("rm1", "x % -1"), ("mindiv", "%s(%s) / x" % (n, mn)), ("minrem", "%s(%s) %% x" % (n, mn)),
                      ("negc", "-x / 2")]
        for cn, ex in cases:
            fs.append(("k_%s_%s" % (cn, n), "func k_%s_%s(x %s) %s { return %s }" % (cn, n, n, n, ex), None, ("un", None, t, None, "")))
    return fs


def gen_functions():
    """[(go name, go source, coq key, meta)]"""
    fs = []
    for t in INTS:
        for n, sym, g in BINOPS:
            fs.append(("b_%s_%s" % (n, t[0]), "func b_%s_%s(x, y %s) %s { return x %s y }" % (n, t[0], t[0], t[0], sym),
                       "KBin %s (%s) (%s)" % (g, ity(t), ity(t)), ("bin", g, t, t, sym)))
        for n, sym, g in CMPS:
            fs.append(("c_%s_%s" % (n, t[0]), "func c_%s_%s(x, y %s) bool { return x %s y }" % (n, t[0], t[0], sym),
                       "KBin %s (%s) (%s)" % (g, ity(t), ity(t)), ("cmp", g, t, t, sym)))
        for n, sym, g in UNOPS:
            fs.append(("u_%s_%s" % (n, t[0]), "func u_%s_%s(x %s) %s { return %sx }" % (n, t[0], t[0], t[0], sym),
                       "KUn %s (%s)" % (g, ity(t)), ("un", g, t, None, sym)))
        for u in INTS:
            for n, sym, g in SHIFTS:
                fs.append(("s_%s_%s_%s" % (n, t[0], u[0]),
                           "func s_%s_%s_%s(x %s, y %s) %s { return x %s y }" % (n, t[0], u[0], t[0], u[0], t[0], sym),
                           "KBin %s (%s) (%s)" % (g, ity(t), ity(u)), ("shift", g, t, u, sym)))
            fs.append(("v_%s_%s" % (t[0], u[0]), "func v_%s_%s(x %s) %s { return %s(x) }" % (t[0], u[0], t[0], u[0], u[0]),
                       "KConv (%s) (%s)" % (ity(t), ity(u)), ("conv", None, t, u, "")))
    return fs


EVAL_TMPL = r'''package main

import "unsafe"

var _ = unsafe.Sizeof(0)

%(funcs)s

var pool64 = []uint64{0, 1, 2, 3, 7, 8, 9, 15, 16, 17, 31, 32, 33, 63, 64, 65, 127, 128, 129, 255, 256, 257, 511, 512,
	0x7fff, 0x8000, 0x8001, 0xffff, 0x10000, 0x7fffffff, 0x80000000, 0x80000001, 0xffffffff, 0x100000000,
	0x7fffffffffffffff, 0x8000000000000000, 0x8000000000000001, 0xffffffffffffffff, 0xfffffffffffffffe,
	0xffffffffffffff80, 0xffffffffffffff00, 0xfffffffffffffeff, 0xffffffffffff8000, 0xffffffff80000000, 12345, 0xdeadbeefcafebabe, %(rand)s}

type acc struct{ h uint64 }

func (a *acc) add(v uint64) { a.h = (a.h ^ v) * 0x100000001b3; a.h ^= a.h >> 29 }

var dump bool

func safe2(a *acc, name string, x, y uint64, f func() uint64) {
	defer func() {
		if r := recover(); r != nil {
			a.add(0xdead)
			if dump {
				println(name, x, y, "panic")
			}
		}
	}()
	v := f()
	a.add(v)
	if dump {
		println(name, x, y, v)
	}
}

func b2u(b bool) uint64 {
	if b {
		return 1
	}
	return 0
}

%(drivers)s

func main() {
%(calls)s
}
'''


def gen_eval_program(fs, seed, only=None):
    """evaluator: for each function print name and a hash over the pool (or dump every value for `only`)"""
    rng = __import__("random").Random(seed)
    rand = ", ".join("0x%x" % rng.getrandbits(64) for _ in range(12))
    drivers, calls = [], []
    for name, src, key, meta in fs:
        kind, g, t, u, sym = meta
        if only and name not in only:
            continue
        if kind in ("bin", "cmp", "shift"):
            ty = (u or t)[0]
            res = "uint64(%s(%s(x), %s(y)))" % (name, t[0], ty) if kind != "cmp" else "b2u(%s(%s(x), %s(y)))" % (name, t[0], ty)
            drivers.append('func d_%s() {\n\ta := &acc{h: 0xcbf29ce484222325}\n\tfor _, x := range pool64 {\n\t\tfor _, y := range pool64 {\n\t\t\tsafe2(a, "%s", x, y, func() uint64 { return %s })\n\t\t}\n\t}\n\tprintln("%s", a.h)\n}' % (name, name, res, name))
        else:
            res = "uint64(%s(%s(x)))" % (name, t[0])
            drivers.append('func d_%s() {\n\ta := &acc{h: 0xcbf29ce484222325}\n\tfor _, x := range pool64 {\n\t\tsafe2(a, "%s", x, 0, func() uint64 { return %s })\n\t}\n\tprintln("%s", a.h)\n}' % (name, name, res, name))
        calls.append("\td_%s()" % name)
    funcs = "\n".join(src for n, src, k, m in fs if not only or n in only)
    if only:
        calls.insert(0, "\tdump = true")
    return EVAL_TMPL % {"funcs": funcs, "rand": rand, "drivers": "\n\n".join(drivers), "calls": "\n".join(calls)}


FLOAT_PROG = r'''package main

import "unsafe"

func f64(b uint64) float64 { return *(*float64)(unsafe.Pointer(&b)) }
func f32(b uint32) float32 { return *(*float32)(unsafe.Pointer(&b)) }
func b64(f float64) uint64 { return *(*uint64)(unsafe.Pointer(&f)) }
func b32(f float32) uint32 { return *(*uint32)(unsafe.Pointer(&f)) }

var fp = []uint64{0, 0x8000000000000000, 0x3ff0000000000000, 0xbff0000000000000, 0x7ff0000000000000, 0xfff0000000000000,
	0x7ff8000000000001, 0x0000000000000001, 0x7fefffffffffffff, 0x4000000000000000, 0x3fe0000000000000, 0x4059000000000000,
	0xc059000000000000, 0x40dfffc000000000, 0x41dfffffffc00000, 0x41efffffffe00000, 0x43dfffffffffffff, 0x43e0000000000000, 0xc3e0000000000000,
	0x405fc00000000000, 0x4060000000000000, 0x406fe00000000000, 0x4070000000000000, 0xc060000000000000, 0xc060200000000000, 0x3fd5555555555555, 0x400921fb54442d18, %(rand)s}

func add64(x, y float64) float64 { return x + y }
func sub64(x, y float64) float64 { return x - y }
func mul64(x, y float64) float64 { return x * y }
func div64(x, y float64) float64 { return x / y }
func neg64(x float64) float64    { return -x }
func add32(x, y float32) float32 { return x + y }
func mul32(x, y float32) float32 { return x * y }
func div32(x, y float32) float32 { return x / y }
func lt64(x, y float64) bool     { return x < y }
func le64(x, y float64) bool     { return x <= y }
func gt64(x, y float64) bool     { return x > y }
func ge64(x, y float64) bool     { return x >= y }
func eq64(x, y float64) bool     { return x == y }
func ne64(x, y float64) bool     { return x != y }
func lt32(x, y float32) bool     { return x < y }
func eq32(x, y float32) bool     { return x == y }
func ne32(x, y float32) bool     { return x != y }
func to32(x float64) float32     { return float32(x) }
func to64(x float32) float64     { return float64(x) }
func i64f(x int64) float64       { return float64(x) }
func u64f(x uint64) float64      { return float64(x) }
func i32f(x int32) float32       { return float32(x) }
func u8f(x uint8) float64        { return float64(x) }
func fi64(x float64) int64       { return int64(x) }
func fu64(x float64) uint64      { return uint64(x) }
func fi32(x float64) int32       { return int32(x) }
func fu32(x float64) uint32      { return uint32(x) }
func fi8(x float64) int8         { return int8(x) }
func fu8(x float64) uint8        { return uint8(x) }
func fi16(x float32) int16       { return int16(x) }
func fu16(x float32) uint16      { return uint16(x) }
func cadd(x, y complex128) complex128 { return x + y }
func csub(x, y complex128) complex128 { return x - y }
func cmul(x, y complex128) complex128 { return x * y }
func cdiv(x, y complex128) complex128 { return x / y }
func cneg(x complex128) complex128    { return -x }
func ceq(x, y complex128) bool        { return x == y }
func cne(x, y complex64) bool         { return x != y }
func c64div(x, y complex64) complex64 { return x / y }
func c64mul(x, y complex64) complex64 { return x * y }
func cconv(x complex128) complex64    { return complex64(x) }

func b2u(b bool) uint64 {
	if b {
		return 1
	}
	return 0
}

// float -> int conversions are only specified for representable values
func rep(x float64, lo, hi float64) bool { return x == x && x > lo && x < hi }

func main() {
	for _, a := range fp {
		x := f64(a)
		x32 := f32(uint32(a >> 32))
		println("u", a, b64(neg64(x)), b32(to32(x)), b64(to64(x32)), b64(i64f(int64(a))), b64(u64f(a)), b32(i32f(int32(a))), b64(u8f(uint8(a))))
		if rep(x, -9.2e18, 9.2e18) {
			println("fi64", a, fi64(x))
		}
		if rep(x, -1, 1.8e19) {
			println("fu64", a, fu64(x))
		}
		if rep(x, -2147483649, 2147483648) {
			println("fi32", a, fi32(x))
		}
		if rep(x, -1, 4294967296) {
			println("fu32", a, fu32(x))
		}
		if rep(x, -129, 128) {
			println("fi8", a, fi8(x))
		}
		if rep(x, -1, 256) {
			println("fu8", a, fu8(x))
		}
		if rep(float64(x32), -32769, 32768) {
			println("fi16", a, fi16(x32))
		}
		if rep(float64(x32), -1, 65536) {
			println("fu16", a, fu16(x32))
		}
		for _, b := range fp {
			y := f64(b)
			y32 := f32(uint32(b >> 32))
			r1, r2, r3, r4 := add64(x, y), sub64(x, y), mul64(x, y), div64(x, y)
			// NaN payloads are not specified: print a canonical marker
			pr := func(v float64) uint64 {
				if v != v {
					return 0x7ff8000000000000
				}
				return b64(v)
			}
			pr32 := func(v float32) uint32 {
				if v != v {
					return 0x7fc00000
				}
				return b32(v)
			}
			println("b", a, b, pr(r1), pr(r2), pr(r3), pr(r4), pr32(add32(x32, y32)), pr32(mul32(x32, y32)), pr32(div32(x32, y32)),
				b2u(lt64(x, y)), b2u(le64(x, y)), b2u(gt64(x, y)), b2u(ge64(x, y)), b2u(eq64(x, y)), b2u(ne64(x, y)), b2u(lt32(x32, y32)), b2u(eq32(x32, y32)), b2u(ne32(x32, y32)))
		}
	}
	cp := []float64{0, 1, -1, 2, 0.5, f64(0x7ff0000000000000), f64(0xfff0000000000000), f64(0x7ff8000000000001), 1e308, 1e-308, 3, -4}
	for _, a := range cp {
		for _, b := range cp[:6] {
			for _, c := range cp {
				for _, d := range cp[:8] {
					x, y := complex(a, b), complex(c, d)
					q := cdiv(x, y)
					m := cmul(x, y)
					s := cadd(x, y)
					t := csub(x, y)
					n := cneg(x)
					pr := func(v float64) uint64 {
						if v != v {
							return 0x7ff8000000000000
						}
						return b64(v)
					}
					x64, y64 := cconv(x), cconv(y)
					q64 := c64div(x64, y64)
					m64 := c64mul(x64, y64)
					pr32 := func(v float32) uint32 {
						if v != v {
							return 0x7fc00000
						}
						return b32(v)
					}
					println("c", pr(a), pr(b), pr(c), pr(d), pr(real(q)), pr(imag(q)), pr(real(m)), pr(imag(m)), pr(real(s)), pr(imag(t)), pr(real(n)),
						b2u(ceq(x, y)), b2u(cne(x64, y64)), pr32(real(q64)), pr32(imag(q64)), pr32(real(m64)), pr32(imag(m64)))
				}
			}
		}
	}
}
'''


def run(ck):
    ck.trusted = ["Coq 8.16.1 kernel (coqc, vm_compute)", "lib/ll2v.py (syntactic IR->Coq translator)", "lib/verifgen (driver around internal/build.Do)",
                  "Lib/LLIR.v: our model of LLVM semantics for the straight-line integer fragment (validated by the end-to-end evaluator)",
                  "e2e shims (LLVM 14, GNU ld)"]
    ck.assumptions = ["float/complex operators have no theorem: compared end to end with the reference toolchain on a special-value pool only",
                      "LLVM 14 at -O0 executes the IR as Lib/LLIR.v says (observed through the evaluator)"]
    ok, _ = ck.coq_build("C02")
    ck.coq_props("LLGoV.C02.Props", "theories/C02/Props.v")

    ck.phase("coq built")
    fs = gen_functions()
    L = e2e.LLGo(ck)
    if not L.ok:
        ck.correspondence_broken("llgo-build", L.buildlog[-2000:])
        return ck.finish()
    rc, out, gen = L.overlay_build("chore/verifgen", {"main.go": os.path.join(vlib.ROOT, "lib", "verifgen", "main.go")}, "verifgen")
    if rc != 0:
        ck.correspondence_broken("verifgen-build", out[-2000:])
        return ck.finish()

    ck.phase("llgo+verifgen built")
    # ---------- T2: IR of every generated function vs the recipe ----------
    d = os.path.join(ck.work, "irpkg")
    fsrc_cmp = "\n".join("func fc_%s_%s(x, y %s) bool { return x %s y }" % (n, t, t, sym) for t in ("float32", "float64") for n, sym, g in CMPS)
    src = "package main\n\n" + "\n".join(s for _, s, _, _ in fs) + "\n" + fsrc_cmp + "\n\nfunc main() {}\n"
    e2e.write_module(d, {"main.go": src})
    rc, ir = vlib.sh([gen, "."], cwd=d, env=L.env(), timeout=600)
    fns = ll2v.split_functions(ir) if rc == 0 else {}
    if rc != 0:
        ck.correspondence_broken("verifgen-run", ir[-2000:])
    terms, untrans = [], []

    def collect(fns, ptr_bits, suffix):
        for name, gosrc, key, meta in fs:
            if ptr_bits == 32:
                # int, uint and uintptr are 32 bits wide on the 32-bit target
                kind, g, t, u, sym = meta
                fix = lambda x: (x[0], 32, x[2]) if x and x[0] in ("int", "uint", "uintptr") else x
                t2, u2 = fix(t), fix(u)
                if kind in ("bin", "cmp"):
                    key = "KBin %s (%s) (%s)" % (g, ity(t2), ity(t2))
                elif kind == "un":
                    key = "KUn %s (%s)" % (g, ity(t2))
                elif kind == "shift":
                    key = "KBin %s (%s) (%s)" % (g, ity(t2), ity(u2))
                else:
                    key = "KConv (%s) (%s)" % (ity(t2), ity(u2))
                meta = (kind, g, t2, u2, sym)
            f = fns.get("verifprog." + name)
            if f is None:
                untrans.append((name + suffix, "function missing in IR"))
                continue
            t, why = ll2v.translate(f[0], f[1])
            if t is None:
                untrans.append((name + suffix, why))
                continue
            terms.append((name + suffix, key, t, meta))
    collect(fns, 64, "")
    rc32, ir32 = vlib.sh([gen, "-goos", "linux", "-goarch", "arm", "."], cwd=d, env=L.env(), timeout=600)
    if rc32 != 0:
        ck.correspondence_broken("verifgen-run-arm", ir32[-1500:])
    else:
        collect(ll2v.split_functions(ir32), 32, "@arm")
    bad_fixed, bad_old = set(), set()
    if terms:
        text = "From LLGoV Require Import C02.Model.\nLocal Open Scope Z_scope.\nDefinition all_ir : list (key * func) := [\n" + \
            ";\n".join("(%s, %s)" % (k, t) for _, k, t, _ in terms) + "\n].\n" + \
            "Fixpoint idx (fixed : bool) (n : N) (l : list (key * func)) : list N := match l with [] => [] | (k, f) :: r => if func_eqb f (recipe_of fixed k) then idx fixed (N.succ n) r else n :: idx fixed (N.succ n) r end.\n" + \
            "Definition BADF := Eval vm_compute in idx true 0%N all_ir.\nPrint BADF.\nDefinition BADO := Eval vm_compute in idx false 0%N all_ir.\nPrint BADO.\n"
        rc, out = ck.coq_run(text, "c02_ir")
        mf = re.search(r"BADF\s*=\s*\[(.*?)\]\s*:", out, re.S)
        mo = re.search(r"BADO\s*=\s*\[(.*?)\]\s*:", out, re.S)
        if rc != 0 or not mf or not mo:
            ck.correspondence_broken("ir-obligation-eval", out[-1500:])
        else:
            bad_fixed = {int(x) for x in re.findall(r"\d+", mf.group(1))}
            bad_old = {int(x) for x in re.findall(r"\d+", mo.group(1))}
    # float comparison predicates: the fcmp predicate emitted for each operator vs fpred_of
    fpreds, fbadp = [], None
    for t in ("float32", "float64"):
        for n, sym, g in CMPS:
            f = fns.get("verifprog.fc_%s_%s" % (n, t))
            m = re.search(r"fcmp (\w+) (?:float|double)", "\n".join(f[1])) if f else None
            fpreds.append((g, m.group(1).upper() if m else "UNO", "fc_%s_%s" % (n, t)))
    text = "From LLGoV Require Import C02.Model.\nDefinition FB := Eval vm_compute in map (fun x => fpred_eqb (snd x) (fpred_of (fst x))) [" + \
        "; ".join("(%s, %s)" % (g, p) for g, p, _ in fpreds) + "].\nPrint FB.\n"
    rc, out = ck.coq_run(text, "c02_fcmp")
    okp = rc == 0 and "false" not in out and out.count("true") == len(fpreds)
    ck.obligations.append(("gen_fcmp_predicates_match (12 functions)", okp, "vm_compute; emitted: %s" % [(n, p) for g, p, n in fpreds]))
    if not okp:
        ck.broken.append("obligation:gen_fcmp_predicates_match")
    nmatch = len(terms) - len(bad_fixed)
    ck.obligations.append(("gen_ir_matches_recipes (%d functions)" % len(terms), not bad_fixed and not untrans,
                           "vm_compute; mismatching: %s; untranslatable: %s" % ([terms[i][0] for i in sorted(bad_fixed)][:8], untrans[:5])))
    suspects = [terms[i][0] for i in sorted(bad_fixed)] + [n for n, _ in untrans]
    if bad_fixed or untrans:
        ck.broken.append("obligation:gen_ir_matches_recipes " + ",".join(suspects[:10]))
    # which of the mismatching functions emit the old (count-truncating) shift lowering?
    old_shift = [terms[i][0] for i in sorted(bad_fixed) if i not in bad_old]

    # failing-input search inside the model for mismatching binary functions (boundary pool)
    model_witness = {}
    cand = [terms[i] for i in sorted(bad_fixed) if terms[i][3][0] in ("bin", "cmp", "shift")][:40]
    if cand:
        text = "From LLGoV Require Import C02.Model.\nLocal Open Scope Z_scope.\n"
        for j, (name, key, t, meta) in enumerate(cand):
            kind, g, tx, ty, sym = meta
            text += "Definition W%d := Eval vm_compute in firstn 2 (disagree_bin (%s) %s (%s) (%s)).\nPrint W%d.\n" % (j, t, g, ity(tx), ity(ty), j)
        rc, out = ck.coq_run(text, "c02_search")
        for j, (name, key, t, meta) in enumerate(cand):
            m = re.search(r"W%d\s*=\s*\[(.*?)\]\s*:" % j, out, re.S)
            if m and m.group(1).strip():
                model_witness[name.split("@")[0]] = re.sub(r"\s+", " ", m.group(1))[:120]

    ck.phase("T2 done")
    # ---------- E: evaluator, llgo vs go ----------
    def build_and_run(progsrc, tag):
        pd = os.path.join(ck.work, "ev_" + tag)
        e2e.write_module(pd, {"main.go": progsrc})
        r1, o1 = L.build(pd, os.path.join(pd, "p_llgo"))
        r2, o2 = e2e.go_build(pd, os.path.join(pd, "p_go"))
        if r1 != 0 or r2 != 0:
            return None, (o1 + o2)[-2000:]
        a = L.run_bin(os.path.join(pd, "p_llgo"), timeout=600)
        b = e2e.run_plain(os.path.join(pd, "p_go"), timeout=600)
        return (a, b), None

    seed = ck.seed
    fs_ir = fs
    fs = fs + gen_const_functions()          # constant-operand variants: end to end only
    res, err = build_and_run(gen_eval_program(fs, seed), "all")
    evals = 0
    differing = []
    if res is None:
        ck.correspondence_broken("e2e-evaluator-build", err)
    else:
        (rc1, so1, se1), (rc2, so2, se2) = res
        h1 = dict(l.split() for l in se1.splitlines() if len(l.split()) == 2)
        h2 = dict(l.split() for l in se2.splitlines() if len(l.split()) == 2)
        if rc2 == 0 and len(h2) == len(fs) and rc1 != 0:
            # the llgo-compiled evaluator died (e.g. SIGFPE from a raw sdiv): the first function without a
            # result line is where; narrow it down to the operands below
            dead = [name for name, _, _, _ in fs if name not in h1][:1]
            for name in dead:
                res2, err2 = build_and_run(gen_eval_program(fs, seed, only={name}), "crash")
                x = y = "?"
                if res2:
                    (c1, _, e1), (c2, _, e2) = res2
                    l1, l2 = e1.splitlines(), e2.splitlines()
                    nxt = [l for l in l2[len([l for l in l1 if len(l.split()) == 4]):] if len(l.split()) == 4][:1]
                    if nxt:
                        _, x, y, want = nxt[0].split()
                ck.violation("intop-" + name, "%s(%s, %s): the llgo-compiled program is killed (exit %s); Go computes a value" % (name, x, y, rc1),
                             {"function": [s for n, s, k, m in fs if n == name][0], "x": x, "y": y, "llgo_rc": rc1, "stderr_tail": se1[-300:]})
            if not dead:
                ck.correspondence_broken("e2e-evaluator-run", {"rc_llgo": rc1, "rc_go": rc2, "stderr_llgo": se1[-800:], "n": len(h2)})
        elif rc1 != 0 or rc2 != 0 or len(h2) != len(fs):
            ck.correspondence_broken("e2e-evaluator-run", {"rc_llgo": rc1, "rc_go": rc2, "stderr_llgo": se1[-800:], "n": len(h2)})
        npool = 58
        for name, gosrc, key, meta in fs:
            evals += npool * npool if meta[0] in ("bin", "cmp", "shift") else npool
            if name in h2 and h1.get(name) != h2[name]:
                differing.append(name)
    # narrow down each differing function to concrete operands
    if differing:
        res, err = build_and_run(gen_eval_program(fs, seed, only=set(differing[:30])), "dump")
        if res:
            (rc1, so1, se1), (rc2, so2, se2) = res
            l1, l2 = se1.splitlines(), se2.splitlines()
            seen = set()
            for a, b in zip(l1, l2):
                if a != b and len(b.split()) == 4:
                    name, x, y, want = b.split()
                    if name in seen:
                        continue
                    seen.add(name)
                    got = a.split()[-1]
                    meta = [m for n, s, k, m in fs if n == name][0]
                    key = "intop-" + name
                    if meta[0] == "shift" and name in old_shift and int(y) >= meta[2][1] and int(y) % (1 << meta[2][1]) < meta[2][1]:
                        key = "shift-count-truncated-before-width-compare"
                    ck.violation(key, "%s(%s, %s): llgo gives %s, Go gives %s" % (name, x, y, got, want),
                                 {"function": [s for n, s, k, m in fs if n == name][0], "x": x, "y": y, "llgo": got, "go": want,
                                  "model_witness": model_witness.get(name)})
    # a mismatching IR function with a model witness but no e2e difference is still reported with the model input
    for name, w in model_witness.items():
        if name not in differing:
            ck.violation("intop-model-" + name, "IR of %s disagrees with the Go semantics in the model on %s" % (name, w),
                         {"function": name, "witness": w})

    ck.phase("int evaluator done")
    # floats and complex: e2e only
    rng = __import__("random").Random(ck.seed)
    fsrc = FLOAT_PROG % {"rand": ", ".join("0x%x" % rng.getrandbits(64) for _ in range(10))}
    res, err = build_and_run(fsrc, "float")
    fl = 0
    if res is None:
        ck.correspondence_broken("e2e-float-build", err)
    else:
        (rc1, so1, se1), (rc2, so2, se2) = res
        l1, l2 = se1.splitlines(), se2.splitlines()
        fl = len(l2)
        if rc1 != 0 or rc2 != 0 or len(l1) != len(l2):
            ck.correspondence_broken("e2e-float-run", {"rc_llgo": rc1, "rc_go": rc2, "n1": len(l1), "n2": len(l2), "err": se1[-500:]})
        nbad = 0
        for a, b in zip(l1, l2):
            if a != b:
                nbad += 1
                if nbad <= 3:
                    kind = b.split()[0]
                    ck.violation("float-" + kind, "float/complex evaluator line differs: llgo `%s` vs go `%s`" % (a[:200], b[:200]), {"llgo": a, "go": b})

    ck.add_cov(evaluations=evals + fl, nontrivial=len(terms) + fl,
               samples=[{"function": terms[0][1], "ir": terms[0][2]} if terms else {}, {"function": fs[300][1]}],
               ir_functions=len(terms), ir_matching_recipe=nmatch, untranslatable=len(untrans), e2e_functions=len(fs), float_lines=fl)
    ck.cov["rule"] = ("T2: every generated (operator,type,type) function's IR is compared with its recipe inside Coq (distinct = functions translated); "
                      "E: each function evaluated on a 58-value boundary+random pool (58^2 pairs for binary ops) under llgo and go, hashes compared; "
                      "float/complex: special-value pool, bit patterns compared (NaN canonicalised)")
    return ck.finish()
