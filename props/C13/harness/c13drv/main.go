// c13drv: drives internal/build.Do of the working tree the way `llgo build` does
// (cmd/internal/build + cmd/internal/flags.UpdateBuildConfig), plus the two things the
// command line does not expose in this build: -X string overrides
// (Config.GlobalRewrites) and a per-package dump of the IR the compiler emitted
// (Config.ModuleHook).  Placed under /repo/cmd/internal/c13drv by `go build -overlay`.
package main

import (
	"crypto/sha256"
	"encoding/hex"
	"encoding/json"
	"flag"
	"fmt"
	"os"
	"strings"

	"github.com/goplus/llgo/cmd/internal/compilerhash"
	"github.com/goplus/llgo/internal/build"
	"github.com/goplus/llgo/internal/optlevel"
)

type xflags []string

func (x *xflags) String() string     { return strings.Join(*x, " ") }
func (x *xflags) Set(s string) error { *x = append(*x, s); return nil }

func main() {
	var xs xflags
	out := flag.String("o", "", "output file")
	tags := flag.String("tags", "", "build tags")
	opt := flag.String("O", "0", "optimisation level")
	irOut := flag.String("irhash", "", "write {package: sha256 of IR text} as JSON to this file")
	irDir := flag.String("irdir", "", "write the IR text of every non-runtime package into this directory")
	verbose := flag.Bool("v", false, "verbose (prints CACHE HIT/MISS)")
	flag.Var(&xs, "X", "importpath.name=value (repeatable)")
	flag.Parse()

	conf := build.NewDefaultConf(build.ModeBuild)
	conf.CompilerHash = compilerhash.Value()
	conf.Tags = *tags
	conf.Verbose = *verbose
	conf.OutFile = *out
	lvl, err := optlevel.Parse(*opt)
	if err != nil {
		fmt.Fprintln(os.Stderr, "c13drv:", err)
		os.Exit(2)
	}
	conf.OptLevel = lvl
	conf.BuildMode = build.BuildModeExe
	if len(xs) > 0 {
		conf.GlobalRewrites = map[string]build.Rewrites{}
		for _, x := range xs {
			eq := strings.Index(x, "=")
			if eq < 0 {
				fmt.Fprintln(os.Stderr, "c13drv: bad -X", x)
				os.Exit(2)
			}
			dot := strings.LastIndex(x[:eq], ".")
			if dot < 0 {
				fmt.Fprintln(os.Stderr, "c13drv: bad -X", x)
				os.Exit(2)
			}
			pkg, name, val := x[:dot], x[dot+1:eq], x[eq+1:]
			if conf.GlobalRewrites[pkg] == nil {
				conf.GlobalRewrites[pkg] = build.Rewrites{}
			}
			conf.GlobalRewrites[pkg][name] = val
		}
	}
	hashes := map[string]string{}
	if *irOut != "" || *irDir != "" {
		conf.ModuleHook = func(p build.Package) {
			if p.LPkg == nil {
				return
			}
			s := p.LPkg.String()
			h := sha256.Sum256([]byte(s))
			hashes[p.PkgPath] = hex.EncodeToString(h[:])
			if *irDir != "" && strings.HasPrefix(p.PkgPath, "verifprog") {
				os.WriteFile(*irDir+"/"+strings.ReplaceAll(p.PkgPath, "/", "_")+".ll", []byte(s), 0o644)
			}
		}
	}
	if _, err := build.Do(flag.Args(), conf); err != nil {
		fmt.Fprintln(os.Stderr, "c13drv:", err)
		os.Exit(1)
	}
	if *irOut != "" {
		b, _ := json.Marshal(hashes)
		os.WriteFile(*irOut, b, 0o644)
	}
}
