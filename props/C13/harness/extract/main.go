// c13extract: reads internal/build/{collect,fingerprint,build}.go and
// internal/crosscompile/crosscompile.go of the tree given as argument with go/ast
// and prints, as JSON, which build inputs the cache manifest contains:
//   - for every manifest field written by the collect*Inputs functions, the leaf
//     source expressions that flow into it (one level of local data flow is followed
//     through local variables),
//   - the environment variables listed in collectEnvInputs,
//   - the fields of the per-file digest and whether file content is hashed,
//   - whether every CCFLAGS literal carries the optimisation level,
//   - how the cache archive is keyed and whether main packages are excluded,
//   - whether dependency fingerprints are taken recursively.
// It reports facts only; props/C13/check.py maps them to the model's kinds.
package main

import (
	"encoding/json"
	"fmt"
	"go/ast"
	"go/parser"
	"go/printer"
	"go/token"
	"os"
	"path/filepath"
	"sort"
	"strings"
)

type field struct {
	Section string   `json:"section"`
	Field   string   `json:"field"`
	Func    string   `json:"func"`
	Sources []string `json:"sources"`
}

type facts struct {
	Fields            []field           `json:"fields"`
	CollectorsCalled  []string          `json:"collectors_called"`
	EnvListed         []string          `json:"env_listed"`
	EnvConsts         map[string]string `json:"env_consts"`
	EnvReadInBuild    []string          `json:"env_read_in_build"`
	FileDigestFields  []string          `json:"file_digest_fields"`
	FileContentHashed bool              `json:"file_content_hashed"`
	OverlayHashed     bool              `json:"overlay_hashed"`
	CCFlagsLiterals   int               `json:"ccflags_literals"`
	CCFlagsWithLevel  int               `json:"ccflags_with_level"`
	CompilerUsesCC    bool              `json:"compiler_uses_ccflags"`
	LookupKeyArgs     []string          `json:"lookup_key_args"`
	SaveKeyArgs       []string          `json:"save_key_args"`
	LookupChecksFP    bool              `json:"lookup_requires_fingerprint"`
	MainNotCached     bool              `json:"main_not_cached"`
	FingerprintOf     string            `json:"fingerprint_of"`
	FingerprintHash   string            `json:"fingerprint_hash"`
	DepFPRecursive    bool              `json:"dep_fingerprint_recursive"`
	DepFPSources      []string          `json:"dep_fingerprint_sources"`
	DepVersionShort   bool              `json:"dep_version_shortcut"`
	DepsSorted        bool              `json:"deps_sorted"`
	ClFileReturns     int               `json:"clfile_early_returns"`
	ClFileCompiles    int               `json:"clfile_compile_calls"`
	ModuleVersionSrc  string            `json:"module_version_src"`
	DepVersionGuard   string            `json:"dep_version_guard"`
	ManifestYAMLKeys  map[string]string `json:"manifest_yaml_keys"`
	CompilerHashStat  []string          `json:"compilerhash_inputs"`
	Errors            []string          `json:"errors"`
}

var fset = token.NewFileSet()

// functions of package build (collect.go, fingerprint.go, build.go) by name
var pkgFuncs = map[string]*ast.FuncDecl{}

func str(n ast.Node) string {
	var sb strings.Builder
	printer.Fprint(&sb, fset, n)
	return strings.Join(strings.Fields(sb.String()), " ")
}

func parse(p string, f *facts) *ast.File {
	af, err := parser.ParseFile(fset, p, nil, parser.ParseComments)
	if err != nil {
		f.Errors = append(f.Errors, err.Error())
		return nil
	}
	return af
}

func funcs(af *ast.File) map[string]*ast.FuncDecl {
	m := map[string]*ast.FuncDecl{}
	if af == nil {
		return m
	}
	for _, d := range af.Decls {
		if fd, ok := d.(*ast.FuncDecl); ok && fd.Body != nil {
			m[fd.Name.Name] = fd
		}
	}
	return m
}

// selector chain root.a.b -> ["root","a","b"]
func chain(e ast.Expr) []string {
	switch x := e.(type) {
	case *ast.Ident:
		return []string{x.Name}
	case *ast.SelectorExpr:
		c := chain(x.X)
		if c == nil {
			return nil
		}
		return append(c, x.Sel.Name)
	}
	return nil
}

// leaves of an expression: selector chains, call names and string literals; local
// identifiers are expanded through defs (all right-hand sides ever assigned to them).
func leaves(e ast.Expr, defs map[string][]ast.Expr, seen map[string]bool, out map[string]bool) {
	ast.Inspect(e, func(n ast.Node) bool {
		switch x := n.(type) {
		case *ast.SelectorExpr:
			if c := chain(x); c != nil {
				if c[0] == "m" { // the manifest itself (m.env.Vars.Add(...))
					return true
				}
				out[strings.Join(c, ".")] = true
				if ds, ok := defs[c[0]]; ok && !seen[c[0]] {
					seen[c[0]] = true
					for _, d := range ds {
						leaves(d, defs, seen, out)
					}
				}
				return false
			}
		case *ast.CallExpr:
			if c := chain(x.Fun); c != nil && c[0] != "m" {
				out["call:"+strings.Join(c, ".")] = true
				// one level into functions of package build: what they read flows into the field too
				if callee, ok := pkgFuncs[c[len(c)-1]]; ok && (len(c) == 1 || c[0] == "c") && !strings.HasPrefix(c[len(c)-1], "digestFiles") {
					name := c[len(c)-1]
					ast.Inspect(callee.Body, func(m ast.Node) bool {
						switch y := m.(type) {
						case *ast.SelectorExpr:
							if cc := chain(y); cc != nil {
								out["via:"+name+":"+strings.Join(cc, ".")] = true
								return false
							}
						case *ast.CallExpr:
							if cc := chain(y.Fun); cc != nil {
								out["via:"+name+":call:"+strings.Join(cc, ".")] = true
							}
						case *ast.BasicLit:
							if y.Kind == token.STRING && len(y.Value) < 40 {
								out["via:"+name+":lit:"+y.Value] = true
							}
						}
						return true
					})
				}
			}
		case *ast.Ident:
			if ds, ok := defs[x.Name]; ok && !seen[x.Name] {
				seen[x.Name] = true
				for _, d := range ds {
					leaves(d, defs, seen, out)
				}
			}
		}
		return true
	})
}

func localDefs(fd *ast.FuncDecl) map[string][]ast.Expr {
	defs := map[string][]ast.Expr{}
	ast.Inspect(fd.Body, func(n ast.Node) bool {
		switch x := n.(type) {
		case *ast.AssignStmt:
			for i, l := range x.Lhs {
				id, ok := l.(*ast.Ident)
				if !ok || id.Name == "_" || id.Name == "err" {
					continue
				}
				if len(x.Rhs) == len(x.Lhs) {
					defs[id.Name] = append(defs[id.Name], x.Rhs[i])
				} else if len(x.Rhs) == 1 {
					defs[id.Name] = append(defs[id.Name], x.Rhs[0])
				}
			}
		case *ast.RangeStmt:
			for _, l := range []ast.Expr{x.Key, x.Value} {
				if id, ok := l.(*ast.Ident); ok && id.Name != "_" {
					defs[id.Name] = append(defs[id.Name], x.X)
				}
			}
		case *ast.ValueSpec:
			for i, id := range x.Names {
				if i < len(x.Values) {
					defs[id.Name] = append(defs[id.Name], x.Values[i])
				}
			}
		}
		return true
	})
	return defs
}

func manifestFields(fd *ast.FuncDecl, f *facts) {
	defs := localDefs(fd)
	add := func(lhs ast.Expr, rhs []ast.Expr) {
		c := chain(lhs)
		if len(c) < 2 || c[0] != "m" {
			return
		}
		sec, fld := c[1], ""
		if len(c) >= 3 {
			fld = c[2]
		}
		out := map[string]bool{}
		for _, r := range rhs {
			leaves(r, defs, map[string]bool{}, out)
		}
		var srcs []string
		for s := range out {
			srcs = append(srcs, s)
		}
		sort.Strings(srcs)
		f.Fields = append(f.Fields, field{Section: sec, Field: fld, Func: fd.Name.Name, Sources: srcs})
	}
	ast.Inspect(fd.Body, func(n ast.Node) bool {
		if as, ok := n.(*ast.AssignStmt); ok {
			for i, l := range as.Lhs {
				if len(as.Rhs) == len(as.Lhs) {
					add(l, []ast.Expr{as.Rhs[i]})
				} else {
					add(l, as.Rhs)
				}
			}
		}
		return true
	})
}

func main() {
	repo := os.Args[1]
	f := &facts{EnvConsts: map[string]string{}, ManifestYAMLKeys: map[string]string{}}
	b := filepath.Join(repo, "internal", "build")
	collect := parse(filepath.Join(b, "collect.go"), f)
	fingerprint := parse(filepath.Join(b, "fingerprint.go"), f)
	build := parse(filepath.Join(b, "build.go"), f)
	cross := parse(filepath.Join(repo, "internal", "crosscompile", "crosscompile.go"), f)
	chash := parse(filepath.Join(repo, "cmd", "internal", "compilerhash", "compilerhash.go"), f)
	cf, ff, bf := funcs(collect), funcs(fingerprint), funcs(build)
	for _, fm := range []map[string]*ast.FuncDecl{bf, ff, cf} {
		for k, v := range fm {
			pkgFuncs[k] = v
		}
	}

	// ---- which collectors does collectFingerprint call, and what is the key
	if fd := cf["collectFingerprint"]; fd != nil {
		ast.Inspect(fd.Body, func(n ast.Node) bool {
			if ce, ok := n.(*ast.CallExpr); ok {
				if c := chain(ce.Fun); len(c) == 2 && c[0] == "c" && strings.HasPrefix(c[1], "collect") && c[1] != "collectFingerprint" {
					f.CollectorsCalled = append(f.CollectorsCalled, c[1])
				}
			}
			if as, ok := n.(*ast.AssignStmt); ok && len(as.Lhs) == 1 && len(as.Rhs) == 1 {
				if c := chain(as.Lhs[0]); len(c) == 2 && c[1] == "Fingerprint" {
					f.FingerprintOf = str(as.Rhs[0])
				}
			}
			return true
		})
	} else {
		f.Errors = append(f.Errors, "collectFingerprint not found")
	}
	for _, name := range f.CollectorsCalled {
		if fd := cf[name]; fd != nil {
			manifestFields(fd, f)
		}
	}
	// Fingerprint(): hash of what
	if fd := ff["Fingerprint"]; fd != nil {
		ast.Inspect(fd.Body, func(n ast.Node) bool {
			if ce, ok := n.(*ast.CallExpr); ok {
				if c := chain(ce.Fun); len(c) == 2 && c[0] == "sha256" {
					f.FingerprintHash = str(ce)
				}
			}
			return true
		})
	}

	// ---- env variable consts and the listed ones
	if build != nil {
		for _, d := range build.Decls {
			gd, ok := d.(*ast.GenDecl)
			if !ok || gd.Tok != token.CONST {
				continue
			}
			for _, s := range gd.Specs {
				vs := s.(*ast.ValueSpec)
				for i, id := range vs.Names {
					if i < len(vs.Values) {
						if bl, ok := vs.Values[i].(*ast.BasicLit); ok && bl.Kind == token.STRING && strings.HasPrefix(bl.Value, "\"LLGO_") {
							f.EnvConsts[id.Name] = strings.Trim(bl.Value, "\"")
						}
					}
				}
			}
		}
		seen := map[string]bool{}
		for _, fd := range bf {
			ast.Inspect(fd.Body, func(n ast.Node) bool {
				ce, ok := n.(*ast.CallExpr)
				if !ok {
					return true
				}
				if id, ok := ce.Fun.(*ast.Ident); ok && (id.Name == "isEnvOn" || id.Name == "defaultEnv") && len(ce.Args) > 0 {
					if a, ok := ce.Args[0].(*ast.Ident); ok {
						if v, ok := f.EnvConsts[a.Name]; ok && !seen[v] {
							seen[v] = true
							f.EnvReadInBuild = append(f.EnvReadInBuild, v)
						}
					}
				}
				return true
			})
		}
		sort.Strings(f.EnvReadInBuild)
	}
	if fd := cf["collectEnvInputs"]; fd != nil {
		usesGetenv := false
		ast.Inspect(fd.Body, func(n ast.Node) bool {
			if cl, ok := n.(*ast.CompositeLit); ok {
				if at, ok := cl.Type.(*ast.ArrayType); ok {
					if id, ok := at.Elt.(*ast.Ident); ok && id.Name == "string" {
						for _, e := range cl.Elts {
							switch x := e.(type) {
							case *ast.Ident:
								if v, ok := f.EnvConsts[x.Name]; ok {
									f.EnvListed = append(f.EnvListed, v)
								} else {
									f.EnvListed = append(f.EnvListed, "ident:"+x.Name)
								}
							case *ast.BasicLit:
								f.EnvListed = append(f.EnvListed, strings.Trim(x.Value, "\""))
							}
						}
					}
				}
			}
			if ce, ok := n.(*ast.CallExpr); ok {
				if c := chain(ce.Fun); len(c) == 2 && c[0] == "os" && (c[1] == "Getenv" || c[1] == "LookupEnv") {
					usesGetenv = true
				}
			}
			return true
		})
		if !usesGetenv {
			f.EnvListed = nil
		}
	}

	// ---- the per-file digest
	if fd := ff["digestFilesWithOverlay"]; fd != nil {
		keys := map[string]bool{}
		ast.Inspect(fd.Body, func(n ast.Node) bool {
			switch x := n.(type) {
			case *ast.CompositeLit:
				if id, ok := x.Type.(*ast.Ident); ok && id.Name == "fileDigest" {
					for _, e := range x.Elts {
						if kv, ok := e.(*ast.KeyValueExpr); ok {
							keys[str(kv.Key)+"="+str(kv.Value)] = true
						}
					}
				}
			case *ast.AssignStmt:
				for i, l := range x.Lhs {
					if c := chain(l); len(c) == 2 && c[0] == "fd" && i < len(x.Rhs) {
						keys[c[1]+"="+str(x.Rhs[i])] = true
					}
				}
			case *ast.CallExpr:
				if id, ok := x.Fun.(*ast.Ident); ok {
					if id.Name == "digestFile" {
						f.FileContentHashed = true
					}
					if id.Name == "digestBytes" {
						f.OverlayHashed = true
					}
				}
			}
			return true
		})
		for k := range keys {
			f.FileDigestFields = append(f.FileDigestFields, k)
		}
		sort.Strings(f.FileDigestFields)
	} else {
		f.Errors = append(f.Errors, "digestFilesWithOverlay not found")
	}
	// yaml keys of the manifest structs (omitted fields would never reach the hash)
	if fingerprint != nil {
		ast.Inspect(fingerprint, func(n ast.Node) bool {
			ts, ok := n.(*ast.TypeSpec)
			if !ok {
				return true
			}
			st, ok := ts.Type.(*ast.StructType)
			if !ok {
				return true
			}
			for _, fl := range st.Fields.List {
				tag := ""
				if fl.Tag != nil {
					tag = fl.Tag.Value
				}
				for _, nm := range fl.Names {
					f.ManifestYAMLKeys[ts.Name.Name+"."+nm.Name] = tag
				}
			}
			return true
		})
	}

	// ---- optimisation level inside CCFLAGS
	if cross != nil {
		ast.Inspect(cross, func(n ast.Node) bool {
			as, ok := n.(*ast.AssignStmt)
			if !ok || len(as.Lhs) != 1 || len(as.Rhs) != 1 {
				return true
			}
			l := str(as.Lhs[0])
			if l != "export.CCFLAGS" && l != "ccflags" {
				return true
			}
			cl, ok := as.Rhs[0].(*ast.CompositeLit)
			if !ok {
				return true
			}
			f.CCFlagsLiterals++
			for _, e := range cl.Elts {
				if str(e) == "level.Flag()" {
					f.CCFlagsWithLevel++
					break
				}
			}
			return true
		})
	}
	if fd := bf["compiler"]; fd != nil {
		f.CompilerUsesCC = strings.Contains(str(fd.Body), "c.crossCompile.CCFLAGS")
	}

	// ---- cache key, main exclusion
	keyArgs := func(fd *ast.FuncDecl) []string {
		var out []string
		if fd == nil {
			return out
		}
		ast.Inspect(fd.Body, func(n ast.Node) bool {
			if ce, ok := n.(*ast.CallExpr); ok {
				if c := chain(ce.Fun); len(c) == 2 && c[1] == "PackagePaths" {
					for _, a := range ce.Args {
						out = append(out, str(a))
					}
				}
			}
			return true
		})
		return out
	}
	f.LookupKeyArgs = keyArgs(cf["tryLoadFromCache"])
	f.SaveKeyArgs = keyArgs(cf["saveToCache"])
	if fd := cf["tryLoadFromCache"]; fd != nil {
		s := str(fd.Body)
		f.LookupChecksFP = strings.Contains(s, `pkg.Fingerprint == ""`) && strings.Contains(s, "os.Stat(paths.Archive)")
	}
	if fd := cf["saveToCache"]; fd != nil {
		ast.Inspect(fd.Body, func(n ast.Node) bool {
			if is, ok := n.(*ast.IfStmt); ok && str(is.Cond) == `pkg.Name == "main"` {
				if len(is.Body.List) == 1 {
					if _, ok := is.Body.List[0].(*ast.ReturnStmt); ok {
						f.MainNotCached = true
					}
				}
			}
			return true
		})
	}

	// ---- dependency fingerprints
	if fd := cf["dependencyFingerprint"]; fd != nil {
		ast.Inspect(fd.Body, func(n ast.Node) bool {
			switch x := n.(type) {
			case *ast.AssignStmt:
				for i, l := range x.Lhs {
					if str(l) == "entry.Fingerprint" && i < len(x.Rhs) {
						f.DepFPSources = append(f.DepFPSources, str(x.Rhs[i]))
					}
					if str(l) == "entry.Version" {
						f.DepVersionShort = true
					}
				}
			case *ast.CallExpr:
				if c := chain(x.Fun); len(c) == 2 && c[1] == "collectFingerprint" {
					f.DepFPRecursive = true
				}
			}
			return true
		})
	}
	// clFile: a C side file is compiled on every call (no shortcut that reuses an object left by an earlier build)
	if fd := bf["clFile"]; fd != nil {
		ast.Inspect(fd.Body, func(n ast.Node) bool {
			switch x := n.(type) {
			case *ast.FuncLit:
				return false
			case *ast.ReturnStmt:
				f.ClFileReturns++
			case *ast.CallExpr:
				if c := chain(x.Fun); len(c) == 2 && c[1] == "Compile" {
					f.ClFileCompiles++
				}
			}
			return true
		})
	} else {
		f.Errors = append(f.Errors, "clFile not found")
	}
	// moduleVersion: its source text (the module type renamed to a local stand-in) so that
	// check.py can run the function itself on the module shapes of the model
	if fd := cf["moduleVersion"]; fd != nil {
		var sb strings.Builder
		printer.Fprint(&sb, fset, fd)
		src := sb.String()
		if fd.Type.Params != nil && len(fd.Type.Params.List) == 1 {
			src = strings.ReplaceAll(src, str(fd.Type.Params.List[0].Type), "*Module")
		}
		f.ModuleVersionSrc = src
	} else {
		f.Errors = append(f.Errors, "moduleVersion not found")
	}
	if fd := cf["dependencyFingerprint"]; fd != nil {
		ast.Inspect(fd.Body, func(n ast.Node) bool {
			if is, ok := n.(*ast.IfStmt); ok && is.Init != nil && strings.Contains(str(is.Init), "moduleVersion(") {
				body := ""
				if len(is.Body.List) > 0 {
					body = str(is.Body)
				}
				f.DepVersionGuard = str(is.Init) + "; " + str(is.Cond) + " " + body
			}
			return true
		})
	}
	if fd := cf["collectDependencyInputs"]; fd != nil {
		s := str(fd.Body)
		f.DepsSorted = strings.Contains(s, "sort.Slice(deps")
		if !strings.Contains(s, "c.dependencyFingerprint(dep)") || !strings.Contains(s, "m.deps = append(m.deps, depEntry)") {
			f.DepFPRecursive = false
		}
	}

	// ---- compiler hash inputs
	if chash != nil {
		if fd := funcs(chash)["compilerHashFromPath"]; fd != nil {
			ast.Inspect(fd.Body, func(n ast.Node) bool {
				if ce, ok := n.(*ast.CallExpr); ok {
					if id, ok := ce.Fun.(*ast.Ident); ok && id.Name == "hashMetadata" {
						for _, a := range ce.Args {
							f.CompilerHashStat = append(f.CompilerHashStat, str(a))
						}
					}
				}
				return true
			})
		}
	}

	enc := json.NewEncoder(os.Stdout)
	enc.SetIndent("", " ")
	if err := enc.Encode(f); err != nil {
		fmt.Fprintln(os.Stderr, err)
		os.Exit(1)
	}
}
