"""C13 - builds are reproducible and the build cache never serves stale code.

T1 (generated obligation): props/C13/harness/extract (go/ast) reads collect.go, fingerprint.go,
   build.go, crosscompile.go of vlib.REPO's working tree and reports which inputs reach the cache
   manifest; they are mapped to the kinds of coq/theories/C13/Model.v and Coq evaluates
   `uncovered gen_manifest_kinds (KDeps :: relevant_kinds)`: `covers` must be true (Lemma
   covers_now_modulo_known, checked by coqc each run; kinds still recorded as known findings are added
   first - none since the four C13 fixes), and the extracted kinds must be exactly
   Model.tree_manifest true (Lemma gen_manifest_is_tree_manifest).
T1b (module policy): the source text of collect.go moduleVersion is compiled against a stand-in of packages.Module and
   RUN on the module shapes of Model.modst (main, workspace, module cache, replaced by a directory, replaced by a versioned
   path); the results must be Model.module_version false (Lemma module_version_policy_now: a version exactly for immutable
   modules - a dependency replaced by a local directory is recorded by content fingerprint).
E  (property oracle): edit histories over a generated 4-package module (main -> a -> b -> c) with a
   private cache directory per history: build, edit ONE input, rebuild with the warm cache, and
   compare the program's behaviour with a clean build (no cache entry of the module) of the same
   sources.  A difference is a stale-cache violation; the history is the replay.
   Correspondence: for every history the model (Coq, vm_compute, structural digest + most
   discriminating compiler) predicts stale / not stale from the generated manifest kinds; the
   prediction must agree with what the real llgo did.
   A second scenario has two modules (example.com/app: main -> app/mid, example.com/lib required at v1.0.0 and replaced by
   ../lib; thorough tier also: replaced by a versioned module served from a file:// proxy): edit lib's Go file / C file /
   embedded file; besides the behaviour oracle, every importer of the edited mutable package must be a CACHE MISS
   (theorem mutable_dep_edit_changes_importers), compared with Model.refingerprints.
   Determinism: the per-package IR of repeated clean builds must be byte-identical."""
import os, re, json, shutil, hashlib, time
from concurrent.futures import ThreadPoolExecutor
import vlib, e2e

H = os.path.join(os.path.dirname(os.path.abspath(__file__)), "harness")
JOBS = int(os.environ.get("VERIF_JOBS", "12") or 12)   # concurrent llgo builds (the machine is shared)

# kind -> (finding key, text) ; one key per kind, raised by the static obligation and/or the history
KEYS = {
    "KPkgId": "cache-stale-pkg-id", "KGoFiles": "cache-stale-go-file", "KAltGoFiles": "cache-stale-alt-go-file",
    "KOtherFiles": "cache-stale-other-file", "KEmbedFiles": "cache-stale-embed-file",
    "KSideCFiles": "cache-stale-llgofiles-c-file", "KSameStatContent": "cache-stale-same-size-mtime",
    "KTags": "cache-stale-build-tag", "KRewrites": "cache-stale-x-rewrite", "KOptLevel": "cache-stale-opt-level",
    "KAbiMode": "cache-stale-abi-mode", "KEnvListed": "cache-stale-env-switch",
    "KEnvExpand": "cache-stale-llgofiles-cflags-env", "KTarget": "cache-stale-target",
    "KToolchain": "cache-stale-toolchain", "KCompiler": "cache-stale-compiler", "KDeps": "cache-stale-transitive-dep",
}
ALL_KINDS = list(KEYS)
# environment switches of build.go that need not be in the manifest: the cache switch itself, and the
# plan9asm debug override (its effect on a package is to add/remove the alt package, whose files are
# in the manifest) - see meta.json
ENV_NOT_NEEDED = {"LLGO_BUILD_CACHE", "LLGO_PLAN9ASM_PKGS"}


# ------------------------------------------------------------------ T1: facts -> kinds
def kinds_from_facts(F):
    notes = []
    fields = {}
    for f in F.get("fields") or []:
        fields.setdefault((f["section"], f["field"]), set()).update(f["sources"] or [])
    yaml = F.get("manifest_yaml_keys") or {}
    structs = {"env": "envSection", "common": "commonSection", "pkg": "packageSection"}
    collectors = set(F.get("collectors_called") or [])
    need_coll = {"env": "collectEnvInputs", "common": "collectCommonInputs", "pkg": "collectPackageInputs"}

    def live(sec, fld):
        tag = yaml.get(structs[sec] + "." + fld)
        return (sec, fld) in fields and tag is not None and 'yaml:"-' not in tag and need_coll[sec] in collectors \
            and 'yaml:"-' not in (yaml.get("manifestData." + {"env": "Env", "common": "Common", "pkg": "Package"}[sec]) or 'yaml:"-')

    def src(sec, fld, needle):
        return live(sec, fld) and any(needle in s for s in fields[(sec, fld)])

    def anysrc(sec, needles):
        return any(live(s, f) and any(n in x for x in v for n in needles) for (s, f), v in fields.items() if s == sec)

    dg = F.get("file_digest_fields") or []
    stat_digest = any(x.startswith("Path=path") for x in dg) and any("Size=info.Size()" in x for x in dg) \
        and any(x == "ModTime=info.ModTime().UnixNano()" for x in dg) \
        and all('yaml:"-' not in (yaml.get("fileDigest." + n) or 'yaml:"-') for n in ("Path", "Size", "ModTime"))
    if not stat_digest:
        notes.append("per-file digest lacks one of path/size/mtime: " + repr(dg))
    key_ok = (F.get("fingerprint_of") == "m.Fingerprint()" and "sha256" in (F.get("fingerprint_hash") or "")
              and "content" in (F.get("fingerprint_hash") or "")
              and "pkg.Fingerprint" in (F.get("lookup_key_args") or []) and "pkg.Fingerprint" in (F.get("save_key_args") or [])
              and "pkg.PkgPath" in (F.get("lookup_key_args") or []) and F.get("lookup_requires_fingerprint"))
    if not key_ok:
        notes.append("cache archive is not keyed by sha256(manifest): %r / %r / %r" %
                     (F.get("fingerprint_of"), F.get("fingerprint_hash"), F.get("lookup_key_args")))
    has = {}
    has["KPkgId"] = src("pkg", "PkgPath", "p.PkgPath")
    has["KGoFiles"] = src("pkg", "GoFiles", "p.GoFiles") and src("pkg", "GoFiles", "digestFilesWithOverlay") and stat_digest
    has["KAltGoFiles"] = src("pkg", "AltGoFiles", "AltPkg.GoFiles") and stat_digest
    has["KOtherFiles"] = src("pkg", "OtherFiles", "p.OtherFiles") and src("pkg", "OtherFiles", "pkgSFiles") and stat_digest
    has["KEmbedFiles"] = anysrc("pkg", ["EmbedFiles", "EmbedPatterns", "goembed", "embedMap"])
    has["KSideCFiles"] = any(live(sc, f) and any("digestFiles" in x for x in v) and any("llgofiles" in x.lower() or "llgoPkgLinkFiles" in x for x in v)
                             for (sc, f), v in fields.items() if sc == "pkg") and stat_digest
    has["KSameStatContent"] = bool(F.get("file_content_hashed"))
    has["KTags"] = src("common", "BuildTags", "buildConf.Tags")
    has["KRewrites"] = src("pkg", "RewriteVars", "rewriteVars")
    has["KOptLevel"] = anysrc("common", ["buildConf.OptLevel"]) or anysrc("env", ["buildConf.OptLevel"]) or (
        src("common", "CCFlags", "crossCompile.CCFLAGS") and F.get("ccflags_literals", 0) > 0
        and F.get("ccflags_literals") == F.get("ccflags_with_level"))
    has["KAbiMode"] = src("common", "AbiMode", "buildConf.AbiMode")
    listed = set(F.get("env_listed") or [])
    needed = set(F.get("env_read_in_build") or []) - ENV_NOT_NEEDED
    has["KEnvListed"] = src("env", "Vars", "os.Getenv") and needed <= listed and len(needed) > 0
    if not needed <= listed:
        notes.append("environment switches read by build.go but not in the manifest: " + ",".join(sorted(needed - listed)))
    # the expansion itself (flag strings), not merely a file list computed next to it
    has["KEnvExpand"] = any(live(sc, f) and any("xenv.ExpandEnv" in x for x in v) and not any("digestFiles" in x for x in v)
                            for (sc, f), v in fields.items() if sc in ("pkg", "common"))
    has["KTarget"] = (src("env", "Goos", "buildConf.Goos") and src("env", "Goarch", "buildConf.Goarch")
                      and src("env", "LlvmTriple", "LLVMTarget") and src("common", "Target", "buildConf.Target")
                      and src("common", "TargetABI", "TargetABI"))
    has["KToolchain"] = (src("env", "GoVersion", "runtime.Version") and src("env", "LlvmVersion", "getLLVMVersion")
                         and src("common", "CC", "crossCompile.CC") and src("common", "CCFlags", "crossCompile.CCFLAGS")
                         and src("common", "CFlags", "crossCompile.CFLAGS") and src("common", "LDFlags", "crossCompile.LDFLAGS")
                         and src("common", "Linker", "crossCompile.Linker") and src("common", "ExtraFiles", "crossCompile.ExtraFiles"))
    has["KCompiler"] = src("env", "LlgoVersion", "env.Version") and src("env", "LlgoCompilerHash", "buildConf.CompilerHash") \
        and len(F.get("compilerhash_inputs") or []) == 2
    has["KDeps"] = bool(F.get("dep_fingerprint_recursive")) and "collectDependencyInputs" in collectors \
        and ("", "") != ("deps", "") and ("deps", "") in fields \
        and any("Fingerprint" in s for s in (F.get("dep_fingerprint_sources") or [])) \
        and 'yaml:"-' not in (yaml.get("manifestData.Deps") or 'yaml:"-') \
        and 'yaml:"-' not in (yaml.get("depEntry.Fingerprint") or 'yaml:"-')
    if not key_ok:
        has = {k: False for k in has}
    return [k for k in ALL_KINDS if has.get(k)], notes


def run_extractor(ck):
    d = os.path.join(ck.work, "extract")
    os.makedirs(d, exist_ok=True)
    shutil.copy(os.path.join(H, "extract", "main.go"), os.path.join(d, "main.go"))
    open(os.path.join(d, "go.mod"), "w").write("module c13extract\n\ngo 1.24\n")
    rc, out = vlib.sh(["go", "build", "-o", "c13extract", "."], cwd=d, env=vlib.goenv(), timeout=600)
    if rc != 0:
        return None, out
    rc, out = vlib.sh([os.path.join(d, "c13extract"), vlib.REPO], cwd=d, env=vlib.goenv(), timeout=120)
    if rc != 0:
        return None, out
    try:
        F = json.loads(out)
    except Exception as ex:
        return None, "extractor output: %s\n%s" % (ex, out[-800:])
    json.dump(F, open(os.path.join(ck.work, "manifest_facts.json"), "w"), indent=1)
    return F, ""


# ------------------------------------------------------------------ E: the generated module
def gen_module(rng, embed=False, v=None):
    """embed=True: package a embeds data/msg.txt (importing embed pulls in a large part of the standard library, which
    LLVM 14 cannot optimise above -O0 - so only the embed histories use that flavour)"""
    v = v or {"gosrc": rng.randrange(10, 90), "msg": "hello-%d" % rng.randrange(100, 999), "cbase": rng.randrange(100, 900),
         "cfg": rng.randrange(1000, 9000), "ck": rng.randrange(10, 99), "bg": rng.randrange(100, 899),
         "xdef": "xdefault%d" % rng.randrange(10, 99)}
    v = dict(v)
    v["embed_import"] = '\t_ "embed"\n' if embed else ""
    v["embed_decl"] = "//go:embed data/msg.txt\nvar Msg string" if embed else 'var Msg = "not-embedded"'
    files = {
        "main.go": 'package main\n\nimport "verifprog/a"\n\nfunc main() { a.Report() }\n',
        "a/a.go": '''package a

import (
%(embed_import)s	_ "unsafe"
	"verifprog/b"
)

const LLGoFiles = "$C13_CFLAGS: _wrap/side.c"

//go:linkname sideValue C.c13_side_value
func sideValue() int32

//go:linkname optOn C.c13_opt
func optOn() int32

%(embed_decl)s

var XVar = "%(xdef)s"

func Report() {
	println("gosrc", %(gosrc)d)
	println("tag", TagMode)
	println("xvar", XVar)
	println("embed", Msg)
	println("cside", sideValue())
	println("opt", optOn())
	println("dep", b.K+1, b.G())
}
''' % v,
        "a/a_tag.go": '//go:build vtag\n\npackage a\n\nconst TagMode = "tagged"\n',
        "a/a_notag.go": '//go:build !vtag\n\npackage a\n\nconst TagMode = "plain"\n',
        "a/data/msg.txt": v["msg"],
        "a/side_cfg.h": "#define C13_CFG %(cfg)d\n" % v,
        "a/_wrap/side.c": ('#include "../side_cfg.h"\n#ifndef C13_ADD\n#define C13_ADD 0\n#endif\n'
                           'int c13_side_value(void) { return %(cbase)d + C13_ADD + C13_CFG; }\n'
                           'int c13_opt(void) {\n#ifdef __OPTIMIZE__\n\treturn 1;\n#else\n\treturn 0;\n#endif\n}\n') % v,
        "b/b.go": 'package b\n\nimport "verifprog/c"\n\nconst K = c.K * 2\n\nfunc G() int { return %(bg)d }\n' % v,
        "c/c.go": 'package c\n\nconst K = %(ck)d\n' % v,
    }
    return files, v


OLD_MTIME_NS = 1577836800 * 10**9   # 2020-01-01T00:00:00Z


def sub_in_file(path, old, new, keep_stat=False, bump_ns=None, set_mtime_ns=None):
    """keep_stat: restore size-preserving edit's mtime exactly; bump_ns: set mtime to old mtime + bump_ns (boundary:
    an edit in the same second / microsecond as the previous write)"""
    st = os.stat(path)
    s = open(path).read()
    assert old in s, (path, old)
    s2 = s.replace(old, new, 1)
    open(path, "w").write(s2)
    if keep_stat:
        assert len(s2.encode()) == len(s.encode())
        os.utime(path, ns=(st.st_atime_ns, st.st_mtime_ns))
    elif set_mtime_ns:
        os.utime(path, ns=(st.st_atime_ns, set_mtime_ns))
    elif bump_ns:
        assert len(s2.encode()) == len(s.encode())
        os.utime(path, ns=(st.st_atime_ns, st.st_mtime_ns + bump_ns))
        assert os.stat(path).st_mtime_ns == st.st_mtime_ns + bump_ns, "file system does not keep nanosecond mtimes"
    else:
        # make sure the mtime moves even on coarse clocks
        st2 = os.stat(path)
        if st2.st_mtime_ns == st.st_mtime_ns:
            os.utime(path, ns=(st2.st_atime_ns, st.st_mtime_ns + 1000000))


# ------------------------------------------------------------------ moduleVersion: the real function on the model's module shapes
MODVER_CASES = [  # name, Go literal, Coq modst, version table
    ("nil", "nil", None),
    ("main", '&Module{Path: "example.com/app", Main: true, Dir: "/w/app"}', "MMain"),
    ("workspace", '&Module{Path: "example.com/ws", Dir: "/w/ws"}', "MMain"),
    ("cache", '&Module{Path: "example.com/dep", Version: "v1.2.3", Dir: "/mc/dep@v1.2.3"}', "(MCache 7)"),
    ("repldir", '&Module{Path: "example.com/lib", Version: "v1.0.0", Replace: &Module{Path: "../lib", Dir: "/w/lib"}}', "(MReplDir 5)"),
    ("replver", '&Module{Path: "example.com/lib", Version: "v1.0.0", Replace: &Module{Path: "example.com/fork", Version: "v2.0.0", Dir: "/mc/fork@v2.0.0"}}', "(MReplVer 5 9)"),
    ("replsame", '&Module{Path: "example.com/lib", Version: "v1.0.0", Replace: &Module{Path: "example.com/lib", Version: "v1.0.1"}}', "(MReplVer 5 6)"),
]
VERNUM = {"": None, "v1.2.3": 7, "v1.0.0": 5, "v2.0.0": 9, "v1.0.1": 6}


def run_module_version(ck, F):
    """compile the source text of collect.go moduleVersion (module type replaced by a stand-in with the fields of
    golang.org/x/tools/go/packages.Module) and run it on the module shapes of Model.modst"""
    src = F.get("module_version_src") or ""
    d = os.path.join(ck.work, "modver")
    os.makedirs(d, exist_ok=True)
    prog = ('package main\n\nimport (\n\t"encoding/json"\n\t"os"\n\t"time"\n)\n\n'
            'type ModuleError struct{ Err string }\n'
            'type Module struct {\n\tPath, Version string\n\tReplace *Module\n\tTime *time.Time\n\tMain, Indirect bool\n'
            '\tDir, GoMod, GoVersion string\n\tError *ModuleError\n}\n\n' + src + '\n\nfunc main() {\n\tout := map[string]string{}\n')
    for name, lit, _ in MODVER_CASES:
        prog += '\tout["%s"] = moduleVersion(%s)\n' % (name, lit)
    prog += '\tjson.NewEncoder(os.Stdout).Encode(out)\n}\n'
    open(os.path.join(d, "main.go"), "w").write(prog)
    open(os.path.join(d, "go.mod"), "w").write("module c13modver\n\ngo 1.24\n")
    rc, out = vlib.sh(["go", "run", "."], cwd=d, env=vlib.goenv(), timeout=600)
    if rc != 0:
        return None, out
    try:
        return json.loads(out.strip().splitlines()[-1]), ""
    except Exception as ex:
        return None, "%s: %s" % (ex, out[-600:])


# ------------------------------------------------------------------ E: two modules, lib replaced by a local directory
def gen_repl_modules(rng, embed=False):
    v = {"limit": rng.randrange(10, 49), "label": "v%d" % rng.randrange(1, 9), "cbase": rng.randrange(100, 900),
         "msg": "libmsg-%d" % rng.randrange(100, 999)}
    v["embed_import"] = '\t_ "embed"\n' if embed else ""
    v["embed_decl"] = "//go:embed data/msg.txt\nvar Msg string" if embed else 'var Msg = "not-embedded"'
    files = {
        "app/go.mod": "module example.com/app\n\ngo 1.24\n\nrequire example.com/lib v1.0.0\n\nreplace example.com/lib v1.0.0 => ../lib\n",
        "app/main.go": 'package main\n\nimport "example.com/app/mid"\n\nfunc main() { mid.Report() }\n',
        "app/mid/mid.go": ('package mid\n\nimport "example.com/lib"\n\n// constants of lib are folded into this package\n'
                           'const Twice = lib.Limit * 2\n\nfunc Report() {\n\tprintln("limit", Twice, "label", "<"+lib.Label+">")\n'
                           '\tprintln("side", lib.Side())\n\tprintln("msg", lib.Msg)\n}\n'),
        "lib/go.mod": "module example.com/lib\n\ngo 1.24\n",
        "lib/lib.go": ('package lib\n\nimport (\n%(embed_import)s\t_ "unsafe"\n)\n\nconst LLGoFiles = "_wrap/lib.c"\n\n'
                       'const Limit = %(limit)d\nconst Label = "%(label)s"\n\n//go:linkname Side C.c13_lib_side\nfunc Side() int32\n\n'
                       '%(embed_decl)s\n') % v,
        "lib/data/msg.txt": v["msg"],
        "lib/_wrap/lib.c": "int c13_lib_side(void) { return %(cbase)d; }\n" % v,
    }
    return files, v


class random_like:
    """replays the values already drawn (the embed flavour must have the same constants)"""
    def __init__(self, rng, vals):
        self.q = [vals["limit"], int(vals["label"][1:]), vals["cbase"], int(vals["msg"].split("-")[1])]

    def randrange(self, a, b):
        return self.q.pop(0)


def write_tree(root, files):
    for n, src in files.items():
        p = os.path.join(root, n)
        os.makedirs(os.path.dirname(p), exist_ok=True)
        open(p, "w").write(src)


FORK = "verif.invalid/c13fork"


def make_fake_proxy(root, limits):
    """a file:// GOPROXY holding module example.com/lib published under the path verif.invalid/c13fork at two versions"""
    import zipfile
    d = os.path.join(root, FORK, "@v")
    os.makedirs(d, exist_ok=True)
    for ver, lim in limits.items():
        open(os.path.join(d, ver + ".info"), "w").write(json.dumps({"Version": ver, "Time": "2020-01-01T00:00:00Z"}))
        open(os.path.join(d, ver + ".mod"), "w").write("module example.com/lib\n\ngo 1.24\n")
        with zipfile.ZipFile(os.path.join(d, ver + ".zip"), "w") as z:
            z.writestr("%s@%s/go.mod" % (FORK, ver), "module example.com/lib\n\ngo 1.24\n")
            z.writestr("%s@%s/lib.go" % (FORK, ver), 'package lib\n\nconst Limit = %d\nconst Label = "fork"\n\nvar Msg = "fork"\n\n'
                       'func Side() int32 { return 1 }\n' % lim)
    open(os.path.join(d, "list"), "w").write("\n".join(limits) + "\n")


def repl_histories(rv, tier):
    B = ("build",)

    def ed(rel, old, new):
        def f(d, cfg):
            sub_in_file(os.path.join(d, "..", rel), old, new)
            return cfg
        return ("edit", "%s: %r -> %r" % (rel, old, new), f)
    imp = ["example.com/app/mid"]
    hs = {}
    hs["repl-dir-go-file"] = dict(kind="KDeps", repl=True, must_miss=imp, key="cache-stale-dir-replaced-dep", module="e2e_repl_module",
                                  steps=[B, ed("lib/lib.go", "const Limit = %d" % rv["limit"], "const Limit = %d" % (rv["limit"] + 50)), B],
                                  model="[Build; EditPkg 2 KGoFiles 1; Build]", edit="EditPkg 2 KGoFiles 1", importer=1)
    if tier != "quick":
        hs["repl-dir-c-file"] = dict(kind="KDeps", repl=True, must_miss=imp, key="cache-stale-dir-replaced-dep", module="e2e_repl_module",
                                     steps=[B, ed("lib/_wrap/lib.c", "return %d" % rv["cbase"], "return %d" % (rv["cbase"] + 7)), B],
                                     model="[Build; EditPkg 2 KSideCFiles 1; Build]", edit="EditPkg 2 KSideCFiles 1", importer=1, output_blind=True)
        hs["repl-dir-embed-file"] = dict(kind="KDeps", repl=True, embed=True, must_miss=imp, key="cache-stale-dir-replaced-dep", module="e2e_repl_module",
                                         steps=[B, ed("lib/data/msg.txt", rv["msg"], rv["msg"] + "-edited"), B],
                                         model="[Build; EditPkg 2 KEmbedFiles 1; Build]", edit="EditPkg 2 KEmbedFiles 1", importer=1, output_blind=True)
        # lib replaced by another module path at a version (module cache, immutable): switching the version in go.mod
        # must re-fingerprint the importer (moduleVersion returns Replace.Version)
        def switch(d, cfg):
            sub_in_file(os.path.join(d, "go.mod"), FORK + " v1.2.0", FORK + " v1.3.0")
            return cfg
        hs["repl-version-switch"] = dict(kind="KDeps", repl=True, replver=True, must_miss=imp, key="cache-stale-versioned-replace", model=None,
                                         steps=[B, ("edit", "app/go.mod: replace example.com/lib => %s v1.2.0 -> v1.3.0" % FORK, switch), B])
        hs["repl-dir-label"] = dict(kind="KDeps", repl=True, must_miss=imp, key="cache-stale-dir-replaced-dep", module="e2e_repl_module",
                                    steps=[B, ed("lib/lib.go", 'const Label = "%s"' % rv["label"], 'const Label = "%sx"' % rv["label"]), B, B],
                                    model="[Build; EditPkg 2 KGoFiles 1; Build; Build]", edit="EditPkg 2 KGoFiles 1", importer=1)
    return hs



class Cfg:
    """build configuration = the non-file inputs"""
    def __init__(self, tags="", opt="0", env=None, xvar=None):
        self.tags, self.opt, self.env, self.xvar = tags, opt, dict(env or {}), xvar

    def with_(self, **kw):
        c = Cfg(self.tags, self.opt, self.env, self.xvar)
        for k, v in kw.items():
            if k == "env":
                c.env.update(v)
            else:
                setattr(c, k, v)
        return c

    def desc(self):
        return {"tags": self.tags, "opt": "-O" + self.opt, "env": self.env, "xvar": self.xvar}


BASE_ENV = {"C13_CFLAGS": "-DC13_ADD=1"}


def histories(v, tier):
    """name -> dict(kind, steps (python), model (Coq steps), use_driver)
    python steps: ("build",) | ("edit", description, fn(dir, cfg) -> cfg) | ("clear",)"""
    g = v["gosrc"]

    def ed_file(rel, old, new, keep=False, bump=None, dated=None):
        def f(d, cfg):
            sub_in_file(os.path.join(d, rel), old, new, keep, bump, dated)
            return cfg
        return ("edit", "%s: %r -> %r%s" % (rel, old, new, " (size and mtime preserved)" if keep else
                                           (" (same size, mtime + %d ns)" % bump if bump else
                                            (" (replaced by a revision whose mtime is 2020-01-01T00:00:00Z, as cp -p / tar x do)" if dated else ""))), f)

    def ed_cfg(what, **kw):
        return ("edit", what, lambda d, cfg: cfg.with_(**kw))

    B = ("build",)
    hs = {}
    # boundary: same size, mtime one microsecond later (an edit within the same second must be seen)
    hs["go-file"] = dict(kind="KGoFiles", steps=[B, ed_file("a/a.go", 'println("gosrc", %d)' % g, 'println("gosrc", %d)' % (g + 1), bump=1000), B],
                         model="[Build; EditPkg 1 KGoFiles 1; Build]")
    hs["build-tag"] = dict(kind="KTags", steps=[B, ed_cfg("-tags '' -> vtag", tags="vtag"), B],
                           model="[Build; EditAll KTags 1; EditPkg 1 KGoFiles 1; Build]")
    hs["x-rewrite"] = dict(kind="KRewrites", driver=True, cfg0=dict(xvar="one"),
                           steps=[B, ed_cfg("-X verifprog/a.XVar=one -> two", xvar="two"), B],
                           model="[Build; EditPkg 1 KRewrites 1; Build]")
    hs["embed-file"] = dict(kind="KEmbedFiles", embed=True, steps=[B, ed_file("a/data/msg.txt", v["msg"], v["msg"] + "-edited"), B],
                            model="[Build; EditPkg 1 KEmbedFiles 1; Build]")
    # the C file is replaced by a revision that carries an OLDER mtime than anything the previous build wrote
    # (a make-style "object newer than source" shortcut must not be taken)
    hs["llgofiles-c-file"] = dict(kind="KSideCFiles",
                                  steps=[B, ed_file("a/_wrap/side.c", "return %d +" % v["cbase"], "return %d +" % (v["cbase"] + 7), dated=OLD_MTIME_NS), B],
                                  model="[Build; EditPkg 1 KSideCFiles 1; Build]")
    if tier != "quick":
        hs["llgofiles-c-file-newer"] = dict(kind="KSideCFiles",
                                            steps=[B, ed_file("a/_wrap/side.c", "return %d +" % v["cbase"], "return %d +" % (v["cbase"] + 9)), B],
                                            model="[Build; EditPkg 1 KSideCFiles 1; Build]")
    hs["opt-level"] = dict(kind="KOptLevel", steps=[B, ed_cfg("-O0 -> -O1", opt="1"), B],
                           model="[Build; EditAll KOptLevel 1; Build]")
    hs["env-switch"] = dict(kind="KEnvListed", steps=[B, ed_cfg("LLGO_TRACE unset -> 1", env={"LLGO_TRACE": "1"}), B],
                            model="[Build; EditAll KEnvListed 1; Build]")
    hs["llgofiles-cflags-env"] = dict(kind="KEnvExpand",
                                      steps=[B, ed_cfg("C13_CFLAGS -DC13_ADD=1 -> -DC13_ADD=5", env={"C13_CFLAGS": "-DC13_ADD=5"}), B],
                                      model="[Build; EditAll KEnvExpand 1; Build]")
    hs["transitive-dep"] = dict(kind="KDeps", steps=[B, ed_file("c/c.go", "const K = %d" % v["ck"], "const K = %d" % (v["ck"] + 1)), B],
                                model="[Build; EditPkg 3 KGoFiles 1; Build]")
    hs["same-size-mtime"] = dict(kind="KSameStatContent",
                                 steps=[B, ed_file("b/b.go", "return %d" % v["bg"], "return %d" % (v["bg"] + 1), keep=True), B],
                                 model="[Build; EditPkg 2 KSameStatContent 1; Build]")
    hs["other-file"] = dict(kind="KOtherFiles", steps=[B, ed_file("a/side_cfg.h", "C13_CFG %d" % v["cfg"], "C13_CFG %d" % (v["cfg"] + 1000)), B],
                            model="[Build; EditPkg 1 KOtherFiles 1; Build]")
    # interleaving: no-op rebuild (must hit the cache), clear, edit in the middle package, rebuild, edit back
    noop = [B, B, ("clear",), B, ed_file("b/b.go", "return %d" % v["bg"], "return %d" % (v["bg"] + 3)), B]
    noop_model = "Build; Build; ClearCache; Build; EditPkg 2 KGoFiles 1; Build"
    if tier != "quick":   # ... and edit back
        noop += [ed_file("b/b.go", "return %d" % (v["bg"] + 3), "return %d" % v["bg"]), B]
        noop_model += "; EditPkg 2 KGoFiles 2; Build"
    hs["noop-clear-edit"] = dict(kind="KGoFiles", expect_hits_at=1, steps=noop, model="[" + noop_model + "]")
    if tier != "quick":
        hs["two-edits"] = dict(kind="KEmbedFiles", embed=True,
                               steps=[B, ed_file("a/data/msg.txt", v["msg"], v["msg"] + "-e1"),
                                      ed_file("a/a.go", 'println("gosrc", %d)' % g, 'println("gosrc", %d)' % (g + 2)), B,
                                      ed_file("a/data/msg.txt", v["msg"] + "-e1", v["msg"] + "-e2"), B],
                               model="[Build; EditPkg 1 KEmbedFiles 1; EditPkg 1 KGoFiles 1; Build; EditPkg 1 KEmbedFiles 2; Build]")
        hs["tag-and-back"] = dict(kind="KTags", steps=[B, ed_cfg("-tags vtag", tags="vtag"), B, ed_cfg("-tags ''", tags=""), B],
                                  model="[Build; EditAll KTags 1; EditPkg 1 KGoFiles 1; Build; EditAll KTags 0; EditPkg 1 KGoFiles 0; Build]")
        hs["opt-2"] = dict(kind="KOptLevel", steps=[B, ed_cfg("-O0 -> -O2", opt="2"), B], model="[Build; EditAll KOptLevel 2; Build]")
    return hs


class Runner:
    def __init__(self, ck, L, drv, files, files_embed, seed_cache, repl=None, repl_embed=None):
        self.ck, self.L, self.drv, self.files, self.files_embed, self.seed = ck, L, drv, files, files_embed, seed_cache
        self.repl, self.repl_embed = repl, repl_embed
        self.nbuilds = 0

    def fresh_cache(self, path):
        shutil.rmtree(path, ignore_errors=True)
        if self.seed:
            shutil.copytree(self.seed, path)
        else:
            os.makedirs(path)

    def build(self, d, out, cfg, cache, driver):
        env = dict(BASE_ENV)
        env.update(cfg.env)
        env["XDG_CACHE_HOME"] = cache
        self.nbuilds += 1
        if driver:
            cmd = [self.drv, "-v", "-O", cfg.opt, "-o", out]
            if cfg.tags:
                cmd += ["-tags", cfg.tags]
            if cfg.xvar is not None:
                cmd += ["-X", "verifprog/a.XVar=" + cfg.xvar]
            cmd += ["."]
            rc, log = vlib.sh(cmd, cwd=d, env=self.L.env(env), timeout=1500)
        else:
            extra = ["-v"] + (["-tags", cfg.tags] if cfg.tags else [])
            rc, log = self.L.build(d, out, opt="-O" + cfg.opt, extra_args=extra, env=env, timeout=1500)
        hits = sorted(set(m.group(2) for m in re.finditer(r"^CACHE (HIT): ((?:verifprog|example\.com)\S*)", log, re.M)))
        miss = sorted(set(m.group(2) for m in re.finditer(r"^CACHE (MISS): ((?:verifprog|example\.com)\S*)", log, re.M)))
        return rc, log, hits, miss

    def observe(self, binp):
        rc, so, se = self.L.run_bin(binp, timeout=120)
        # LLGO_TRACE prints "call <function>" lines (of every package) to stdout: keep the module's own
        so = "\n".join(l for l in so.splitlines() if "verifprog" in l)
        return {"rc": rc, "stderr": se, "stdout": so}

    def run_history(self, name, h):
        d = root = os.path.join(self.ck.work, "hist", name, "src")
        if h.get("repl"):        # two modules under src/: the build runs in src/app
            write_tree(d, self.repl_embed if h.get("embed") else self.repl)
            if h.get("replver"):
                make_fake_proxy(os.path.join(d, "proxy"), {"v1.2.0": 21, "v1.3.0": 34})
                open(os.path.join(d, "app", "go.mod"), "w").write(
                    "module example.com/app\n\ngo 1.24\n\nrequire example.com/lib v1.0.0\n\nreplace example.com/lib v1.0.0 => %s v1.2.0\n" % FORK)
                dl = os.path.join(vlib.sh(["go", "env", "GOMODCACHE"], env=vlib.goenv())[1].strip(), "cache", "download")
                h = dict(h)
                h["cfg0"] = dict(env={"GOPROXY": "file://%s,file://%s" % (os.path.join(d, "proxy"), dl),
                                      "GOMODCACHE": os.path.join(self.ck.work, "hist", name, "modcache"), "GONOSUMDB": "*", "GOFLAGS": "-mod=mod -modcacherw"})
            d = os.path.join(d, "app")
        else:
            e2e.write_module(d, self.files_embed if h.get("embed") else self.files)
        cache = os.path.join(self.ck.work, "hist", name, "cache")
        self.fresh_cache(cache)
        cfg = Cfg(**(h.get("cfg0") or {}))
        drv = bool(h.get("driver"))
        res = {"name": name, "kind": h["kind"], "trace": [], "stale": False, "error": None, "effects": [], "hits": [], "not_missed": []}
        nb, last_obs, first_build = 0, None, True
        pending_edit = False
        for st in h["steps"]:
            if st[0] == "edit":
                cfg = st[2](d, cfg) or cfg
                res["trace"].append({"edit": st[1]})
                pending_edit = True
            elif st[0] == "clear":
                self.fresh_cache(cache)
                res["trace"].append("clear-cache")
                first_build = True
            else:
                nb += 1
                out = os.path.join(self.ck.work, "hist", name, "prog%d" % nb)
                rc, log, hits, miss = self.build(d, out, cfg, cache, drv)
                if rc != 0:
                    res["error"] = "cached build %d failed: %s" % (nb, log[-1200:])
                    return res
                obs = self.observe(out)
                res["hits"].append(hits)
                entry = {"build": cfg.desc(), "cache_hit": hits, "cache_miss": miss, "observed": obs}
                if not first_build:
                    # clean build: the same sources (contents and mtimes) copied to a fresh directory, and a cache with no
                    # entry of the module - nothing an earlier build left behind anywhere (llgo cache, objects written next
                    # to the Go export files, ...) can be picked up, because all of it is keyed by the source directory
                    ccache = os.path.join(self.ck.work, "hist", name, "clean%d" % nb)
                    self.fresh_cache(ccache)
                    croot = os.path.join(self.ck.work, "hist", name, "srcclean%d" % nb)
                    shutil.copytree(root, croot, symlinks=True)
                    cout = out + ".clean"
                    rc2, log2, _, _ = self.build(os.path.join(croot, os.path.relpath(d, root)), cout, cfg, ccache, drv)
                    shutil.rmtree(ccache, ignore_errors=True)
                    shutil.rmtree(croot, ignore_errors=True)
                    if rc2 != 0:
                        res["error"] = "clean build %d failed: %s" % (nb, log2[-1200:])
                        return res
                    cobs = self.observe(cout)
                    entry["clean"] = cobs
                    if cobs != obs:
                        res["stale"] = True
                        entry["STALE"] = True
                    if pending_edit:
                        res["effects"].append(last_obs is not None and cobs != last_obs)
                        # manifest-level oracle: every importer of the edited (mutable) package is re-fingerprinted
                        bad = [p for p in (h.get("must_miss") or []) if p not in miss]
                        if bad:
                            res["not_missed"] += bad
                            entry["IMPORTER_NOT_REBUILT"] = bad
                    last_obs = cobs
                else:
                    last_obs = obs
                pending_edit = False
                first_build = False
                res["trace"].append(entry)
        return res


def coq_kinds(ks):
    return "[" + "; ".join(ks) + "]"


def run(ck):
    ck.trusted = ["Coq 8.16.1 kernel (coqc, vm_compute)",
                  "props/C13/harness/extract (go/ast fact extractor) and the facts->kinds table in props/C13/check.py",
                  "props/C13/harness/c13drv (driver around internal/build.Do for -X and per-package IR)",
                  "the stand-in for golang.org/x/tools/go/packages.Module against which moduleVersion's source text is compiled and run",
                  "e2e shims (LLVM 14, GNU ld); hand-written model coq/theories/C13/Model.v tied by predicted-vs-observed staleness"]
    ck.assumptions = ["sha256 of the rendered manifest is collision free (Section hypothesis digest_inj)",
                      "the YAML rendering of distinct manifests is distinct (not modelled)",
                      "the compiler depends only on the listed kinds of a package and of its transitive imports (hypothesis compile_ext); "
                      "every kind is treated as relevant to every package",
                      "sources stored in the module cache under a version do not change (immutable modules are identified by id and version)",
                      "emission order determinism has no model: observed on repeated clean builds only",
                      "a cache miss compiles the package from the current inputs only (Model.build_one: compile t); state an earlier build left outside "
                      "the llgo cache is not part of the model - checked by the clean-copy oracle and the clfile_always_compiles fact",
                      "LLGO_PLAN9ASM_PKGS (debug override) and LLGO_BUILD_CACHE are taken as not needed in the manifest"]
    ck.coq_build("C13")
    ck.coq_props("LLGoV.C13.Props", "theories/C13/Props.v")
    ck.phase("coq built")

    # ---------------- T1: what does the manifest contain?
    F, err = run_extractor(ck)
    if F is None or F.get("errors"):
        ck.correspondence_broken("manifest-extractor", err or F.get("errors"))
        return ck.finish()
    gen, notes = kinds_from_facts(F)
    for n in notes:
        ck.log("extractor note:", n)
    files, vals = gen_module(ck.rng)
    files_embed, _ = gen_module(ck.rng, embed=True, v=vals)
    hs = histories(vals, ck.tier)
    hs["transitive-dep"]["must_miss"] = ["verifprog/a", "verifprog/b"]
    repl_files, rvals = gen_repl_modules(ck.rng)
    repl_files_embed, _ = gen_repl_modules(random_like(ck.rng, rvals), embed=True)
    hs.update(repl_histories(rvals, ck.tier))
    only = os.environ.get("VERIF_C13_ONLY")      # debugging aid: regex on history names (skips the repeated clean builds)
    if only:
        hs = {n: h for n, h in hs.items() if re.search(only, n)}
    names = list(hs)
    mnames = [n for n in names if hs[n].get("model")]

    # moduleVersion: run the function itself on the module shapes of Model.modst
    MV, mverr = run_module_version(ck, F)
    guard = F.get("dep_version_guard") or ""
    guard_ok = all(x in guard for x in ("moduleVersion(dep.Module)", 'v != ""', "entry.Version = v", "return entry"))
    if MV is None or not guard_ok:
        ck.correspondence_broken("C13.Model/moduleVersion", mverr or ("dependencyFingerprint no longer has the shape "
                                 "`if v := moduleVersion(dep.Module); v != \"\" { entry.Version = v; return }`: " + guard))
        return ck.finish()
    gen_pol = MV.get("repldir", "") != ""
    pol = "true" if gen_pol else "false"
    known_kinds = [k for k in ALL_KINDS if KEYS[k] in ck.known]
    text = "From LLGoV Require Import C13.Model.\nLocal Open Scope N_scope.\n"
    text += "Definition gen_manifest_kinds : list kind := %s.\n" % coq_kinds(gen)
    text += "Definition U := Eval vm_compute in uncovered gen_manifest_kinds (KDeps :: relevant_kinds).\nPrint U.\n"
    text += "Definition hs : list (module * list step) := [\n" + ";\n".join("(%s, %s)" % (hs[n].get("module", "e2e_module"), hs[n]["model"]) for n in mnames) + "].\n"
    text += "Definition S : list bool := Eval vm_compute in map (stale_pol %s gen_manifest_kinds) hs.\nPrint S.\n" % pol
    text += "Definition P := Eval vm_compute in map (module_version false) %s.\nPrint P.\n" % coq_kinds([c[2] for c in MODVER_CASES if c[2]])
    impl = [n for n in names if hs[n].get("edit")]
    text += "Definition RF : list bool := Eval vm_compute in %s.\nPrint RF.\n" % coq_kinds(
        ["refingerprints %s gen_manifest_kinds %s (%s) %d" % (pol, hs[n]["module"], hs[n]["edit"], hs[n]["importer"]) for n in impl])
    rc, out = ck.coq_run(text, "c13_gen")
    mU = re.search(r"U\s*=\s*\[(.*?)\]\s*:", out, re.S)
    mS = re.search(r"S\s*=\s*\[(.*?)\]\s*:", out, re.S)
    if rc != 0 or not mU or not mS:
        ck.correspondence_broken("generated-manifest-kinds", out[-1500:])
        return ck.finish()
    mP = re.search(r"P\s*=\s*\[(.*?)\]\s*:", out, re.S)
    mRF = re.search(r"RF\s*=\s*\[(.*?)\]\s*:", out, re.S)
    if not mP or not mRF:
        ck.correspondence_broken("generated-module-policy", out[-1500:])
        return ck.finish()
    model_pol = [None if x.strip() == "None" else int(re.sub(r"\D", "", x)) for x in mP.group(1).split(";")]
    real_pol = [VERNUM.get(MV.get(c[0], "?"), "?") for c in MODVER_CASES if c[2]]
    pol_cases = [c[0] for c in MODVER_CASES if c[2]]
    pol_diff = [(c, MV.get(c), m) for c, r, m in zip(pol_cases, real_pol, model_pol) if r != m]
    if MV.get("nil", "") != "":
        pol_diff.append(("nil", MV.get("nil"), None))
    refp_pred = dict(zip(impl, [x.strip() == "true" for x in mRF.group(1).split(";")]))
    ck.log("moduleVersion on the model's module shapes:", json.dumps(MV, sort_keys=True))
    ck.cov["module_version"] = MV
    text4 = ("From LLGoV Require Import C13.Model.\nLemma module_version_policy_now : forall s, module_version %s s = "
             "if immutable s then Some (mver s) else None.\nProof. destruct s; reflexivity. Qed.\n" % pol)
    rc4, out4 = ck.coq_run(text4, "c13_policy")
    ck.obligations.append(("module_version_policy_now", rc4 == 0 and not pol_diff,
                           "generated: collect.go moduleVersion, run on %d module shapes, is Model.module_version false "
                           "(a version exactly for immutable modules): %s" % (len(MODVER_CASES), json.dumps(MV, sort_keys=True))))
    clfile_ok = F.get("clfile_early_returns", 1) == 0 and F.get("clfile_compile_calls", 0) >= 1
    ck.obligations.append(("clfile_always_compiles", clfile_ok,
                           "generated: build.go clFile has no early return before compiling the C side file (a cache miss compiles from the "
                           "current sources and flags; nothing left by an earlier build is reused): returns=%s compile calls=%s"
                           % (F.get("clfile_early_returns"), F.get("clfile_compile_calls"))))
    policy_viol = None
    if gen_pol:
        policy_viol = ("moduleVersion returns %r for a module replaced by a local directory: its importers record only that version "
                       "(premise of cache_sound fails; Props.dir_replace_by_version_refuted)" % MV.get("repldir"))
    others = [d for d in pol_diff if d[0] != "repldir"]
    if others:
        ck.correspondence_broken("C13.Model/moduleVersion", {"differs (case, real, model)": others, "real": MV})
    uncovered = [x.strip() for x in mU.group(1).split(";") if x.strip()]
    predicted = dict(zip(mnames, [x.strip() == "true" for x in mS.group(1).split(";")]))
    # the obligation proper: covers modulo the kinds recorded as known findings
    text2 = "From LLGoV Require Import C13.Model.\n"
    text2 += "Definition gen_manifest_kinds : list kind := %s.\n" % coq_kinds(gen)
    text2 += "Lemma covers_now_modulo_known : covers (gen_manifest_kinds ++ %s) (KDeps :: relevant_kinds) = true.\nProof. reflexivity. Qed.\n" % coq_kinds(known_kinds)
    rc2, out2 = ck.coq_run(text2, "c13_covers")
    text3 = "From LLGoV Require Import C13.Model.\n"
    text3 += "Definition gen_manifest_kinds : list kind := %s.\n" % coq_kinds(gen)
    text3 += ("Lemma gen_manifest_is_tree_manifest : covers gen_manifest_kinds (tree_manifest true) && "
              "covers (tree_manifest true) gen_manifest_kinds = true.\nProof. reflexivity. Qed.\n")
    rc3, out3 = ck.coq_run(text3, "c13_treemanifest")
    ck.obligations.append(("covers_now_modulo_known", rc2 == 0,
                           "generated: manifest kinds %s; uncovered %s; known %s" % (gen, uncovered, known_kinds)))
    ck.obligations.append(("gen_manifest_is_tree_manifest", rc3 == 0,
                           "generated: the kinds extracted from the sources are exactly Model.tree_manifest true"))
    ck.cov["manifest_kinds"] = gen
    ck.cov["uncovered_kinds"] = uncovered
    ck.log("manifest kinds:", ",".join(gen))
    ck.log("uncovered kinds:", ",".join(uncovered) or "(none)")
    static_viol = {}
    for k in uncovered:
        static_viol[k] = "the cache manifest does not contain %s (generated obligation covers_now fails on it)" % k
    if rc2 != 0:
        ck.log("generated obligation covers_now_modulo_known FAILED:", out2[-400:])
    fixed = [k for k in known_kinds if k not in uncovered]
    if fixed:
        # a recorded finding whose kind is now in the manifest: the record is out of date, not a violation of the tree
        ck.log("note: kinds recorded as known findings are now covered by the manifest:", ",".join(fixed))
    ck.phase("manifest obligation evaluated")

    # ---------------- E: the histories on the real llgo
    L = e2e.LLGo(ck)
    if not L.ok:
        ck.correspondence_broken("llgo-build", L.buildlog[-2000:])
        return ck.finish()
    rc, out, drv = L.overlay_build("cmd/internal/c13drv", {"main.go": os.path.join(H, "c13drv", "main.go")}, "c13drv")
    if rc != 0:
        ck.correspondence_broken("c13drv-build", out[-2000:])
        return ck.finish()
    ck.phase("llgo + c13drv built")

    # seed cache: runtime archives for every configuration used (a different module, so no entry of verifprog)
    seed = os.path.join(ck.work, "seedcache")
    os.makedirs(seed, exist_ok=True)
    sd = os.path.join(ck.work, "seedprog")
    e2e.write_module(sd, {"main.go": 'package main\n\nfunc main() { println("seed") }\n'}, modname="seedprog")
    sde = os.path.join(ck.work, "seedembed")
    e2e.write_module(sde, {"main.go": 'package main\n\nimport _ "embed"\n\nfunc main() { println("seed") }\n'}, modname="seedembed")
    R0 = Runner(ck, L, drv, files, files_embed, None, repl_files, repl_files_embed)
    seed_cfgs = [(Cfg(), False, sd), (Cfg(), False, sde), (Cfg(tags="vtag"), False, sd), (Cfg(opt="1"), False, sd),
                 (Cfg(env={"LLGO_TRACE": "1"}), False, sd), (Cfg(), True, sd), (Cfg(), True, sde)]
    if ck.tier != "quick":
        seed_cfgs.append((Cfg(opt="2"), False, sd))

    def seed_one(i_c):
        i, (cfg, driver, sdir) = i_c
        return R0.build(sdir, os.path.join(ck.work, "seed%d.bin" % i), cfg, seed, driver)[:2]
    with ThreadPoolExecutor(min(len(seed_cfgs), JOBS)) as ex:
        sres = list(ex.map(seed_one, enumerate(seed_cfgs)))
    for (rc, log), (cfg, driver, _sd) in zip(sres, seed_cfgs):
        if rc != 0:
            ck.log("seed build failed for", cfg.desc(), log[-600:])
    ck.phase("seed caches built")
    R = Runner(ck, L, drv, files, files_embed, seed, repl_files, repl_files_embed)

    # ---------------- determinism: per-package IR of repeated clean builds
    nrep = 0 if only else (3 if ck.tier == "quick" else 6)
    dd = os.path.join(ck.work, "det", "src")
    e2e.write_module(dd, files_embed)

    def det_one(i):
        cache = os.path.join(ck.work, "det", "cache%d" % i)
        if ck.tier == "quick":
            shutil.copytree(seed, cache)       # runtime/std archives cached; IR of every package is still generated (ModuleHook)
        else:
            os.makedirs(cache, exist_ok=True)  # empty: every package is compiled
        irj = os.path.join(ck.work, "det", "ir%d.json" % i)
        env = dict(BASE_ENV)
        env["XDG_CACHE_HOME"] = cache
        rc, log = vlib.sh([drv, "-O", "0", "-o", os.path.join(ck.work, "det", "prog%d" % i), "-irhash", irj, "."], cwd=dd, env=L.env(env), timeout=1500)
        if rc != 0 or not os.path.exists(irj):
            return None, log
        bh = hashlib.sha256(open(os.path.join(ck.work, "det", "prog%d" % i), "rb").read()).hexdigest()
        return json.load(open(irj)), bh
    with ThreadPoolExecutor(min(len(names) + nrep, JOBS)) as ex:
        # longest histories first (the critical path is the number of sequential builds of one history)
        order = sorted(names, key=lambda n: -sum(1 for st in hs[n]["steps"] if st[0] == "build"))
        futs = {n: ex.submit(R.run_history, n, hs[n]) for n in order}
        fut_h = [futs[n] for n in names]
        fut_d = [ex.submit(det_one, i) for i in range(nrep)]
        results = [f.result() for f in fut_h]
        det = [f.result() for f in fut_d]
    ck.phase("histories and repeated clean builds done")

    classes, samples, nontrivial = {}, [], 0
    any_hit = False
    for r in results:
        n, kind = r["name"], r["kind"]
        classes[n] = "error" if r["error"] else ("stale" if r["stale"] else "fresh")
        if r["error"]:
            ck.correspondence_broken("history:" + n, r["error"])
            continue
        if any(hh for hh in r["hits"][1:]):
            any_hit = True
        if r["effects"] and all(r["effects"]):
            nontrivial += 1
        elif not r["stale"] and not hs[n].get("output_blind"):
            ck.correspondence_broken("history-vacuous:" + n, "an edit of this history has no observable effect on a clean build: %s" % json.dumps(r["trace"])[:600])
        hfiles = ((repl_files_embed if hs[n].get("embed") else repl_files) if hs[n].get("repl")
                  else (files_embed if hs[n].get("embed") else files))
        replay = {"history": n, "kind": kind, "module": hfiles, "build_dir": "app" if hs[n].get("repl") else ".", "trace": r["trace"],
                  "how": "write the module, then follow trace: llgo build -O<n> [-tags t] -o prog . with XDG_CACHE_HOME private and the "
                         "listed environment; 'clean' is the same build of a copy (cp -a) of the sources in a fresh directory with a cache "
                         "holding no entry of the module"}
        if r["stale"]:
            ck.violation(hs[n]["key"] if hs[n].get("key") else KEYS.get(kind, "cache-stale") if n in ("go-file", "build-tag", "x-rewrite", "embed-file", "llgofiles-c-file", "opt-level",
                                                               "env-switch", "llgofiles-cflags-env", "transitive-dep", "same-size-mtime", "other-file", "llgofiles-c-file-newer")
                         else "cache-stale-history-" + n,
                         "history %s: the cache-warm rebuild after the edit behaves differently from a clean build of the same sources "
                         "(confirmed end to end%s)" % (n, "; the manifest has no %s" % kind if kind in uncovered else ""), replay)
            static_viol.pop(kind, None)
            if hs[n].get("repl"):
                policy_viol = None
        if r["not_missed"]:
            ck.violation("cache-importer-hit-after-mutable-dep-edit",
                         "history %s: after an edit of a mutable dependency its importer(s) %s were served from the cache (CACHE HIT): their "
                         "manifest did not change (theorem mutable_dep_edit_changes_importers; model predicts re-fingerprinting: %s)"
                         % (n, ",".join(sorted(set(r["not_missed"]))), refp_pred.get(n)), replay)
            if hs[n].get("repl"):
                policy_viol = None
        if n in refp_pred and refp_pred[n] != (not r["not_missed"]):
            ck.correspondence_broken("C13.Model/refingerprint:" + n,
                                     {"model_predicts_importer_refingerprinted": refp_pred[n], "observed_importer_hits": r["not_missed"],
                                      "moduleVersion": MV})
        if n in predicted and predicted.get(n) != r["stale"] and not (hs[n].get("output_blind") and predicted.get(n)):
            ck.correspondence_broken("C13.Model/history:" + n,
                                     {"model_predicts_stale": predicted.get(n), "observed_stale": r["stale"], "manifest_kinds": gen,
                                      "trace": r["trace"]})
        exp = hs[n].get("expect_hits_at")
        if exp is not None and len(r["hits"]) > exp and set(r["hits"][exp]) != {"verifprog/a", "verifprog/b", "verifprog/c"}:
            ck.correspondence_broken("cache-not-used-on-noop-rebuild", {"history": n, "hits": r["hits"]})
        if len(samples) < 3:
            samples.append({"history": n, "stale": r["stale"], "trace": [t if isinstance(t, str) else {k: t[k] for k in t if k in ("edit", "cache_hit", "STALE")} for t in r["trace"]]})
    if not any_hit and not only:
        ck.correspondence_broken("cache-never-hit", "no warm rebuild reported CACHE HIT for a module package")
    if not clfile_ok and not any(r["stale"] for r in results if r["name"].startswith("llgofiles-")):
        ck.violation("llgofiles-object-reused-without-recompile",
                     "build.go clFile can return without compiling the C side file (model assumption: a cache miss compiles from the current "
                     "inputs); no end-to-end history went stale for it", {"clfile_early_returns": F.get("clfile_early_returns")})
    if policy_viol:
        ck.violation("cache-stale-dir-replaced-dep", policy_viol + "; no end-to-end history went stale for it", {"moduleVersion": MV})
    # uncovered kinds that no history exercised (or that did not go stale): static finding only
    for k, what in static_viol.items():
        ck.violation(KEYS[k], what + "; no end-to-end history went stale for it", {"manifest_kinds": gen, "uncovered": uncovered, "facts": os.path.join(ck.work, "manifest_facts.json"),
                                                                                "extractor_notes": notes})

    if not det:
        pass
    elif any(d[0] is None for d in det):
        ck.correspondence_broken("determinism-build", [d[1][-600:] for d in det if d[0] is None][:1])
    else:
        ref = det[0][0]
        diff = sorted(p for p in ref if any(d[0].get(p) != ref[p] for d in det[1:]))
        missing = sorted(p for d in det[1:] for p in set(d[0]) ^ set(ref))
        ck.cov["determinism"] = {"repeats": nrep, "packages": len(ref), "ir_differs": diff[:10], "package_set_differs": missing[:10],
                                 "binary_identical": len(set(d[1] for d in det)) == 1}
        if diff or missing:
            ck.violation("ir-nondeterministic", "the IR of %d package(s) differs between identical clean builds: %s" % (len(diff), ", ".join(diff[:6])),
                         {"module": files_embed, "packages": diff, "how": "c13drv -O 0 -irhash out.json . twice with empty XDG_CACHE_HOME; compare"})
        R.nbuilds += nrep

    ck.add_cov(evaluations=R.nbuilds + R0.nbuilds, nontrivial=nontrivial, samples=samples, classes=classes)
    ck.cov["predicted_stale"] = predicted
    ck.cov["rule"] = ("one edit history per kind of build input over a generated module main->a->b->c (constants from the seed) and over a two-module "
                      "layout app(main->mid)->lib with lib replaced by a local directory, each with a private "
                      "XDG_CACHE_HOME: build, edit one input, warm rebuild, compare behaviour (exit code, stderr, trace lines) with a clean build; "
                      "evaluations = llgo builds run; distinct_nontrivial = histories whose every edit changed the clean build's behaviour; "
                      "model prediction (Coq) compared with observation per history; IR hashes of %d identical clean builds compared" % nrep)
    return ck.finish()
