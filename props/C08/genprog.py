"""C08 - end-to-end program for the NON-constant unsafe.Sizeof / Alignof / Offsetof path.

Inside a generic function the operand of unsafe.Sizeof/Alignof/Offsetof has a type-parameter type, so
the value is not folded by the type checker but computed by ssa.Builder.BuiltinCall for every instance.
The program prints, for each boundary type T (println only, so it builds fast):
  G i  size align fieldalign     generic:   SizeOf[T]() AlignOf[T]() FieldAlign[T]()
  K i  size align fieldalign     constants: unsafe.Sizeof(z) Alignof(z) Alignof(s.v) with concrete types
  D i  size align fieldalign     descriptor: Size_, Align_, FieldAlign_ read from the type word of any(z)
  A i  stride                    &arr[1] - &arr[0] of a [2]T (what generated code really uses)
  GO i j off size   /  KO i j off size  /  PO i j off     for P[Ti,Tj]: generic Offsetof(p.b), Sizeof(p);
                                          the folded constants; the pointer difference &p.b - &p
"""

# (name, Go type expression, flags)   flags: z = contains a zero-size tail (recorded finding), e = zero size (P[A, e] has a
# zero-size tail), i = interface (no descriptor of a nil value), f = contains a func
# value (two words here, one in gc: not comparable with the reference toolchain, still compared internally)
TYPES = [
    ("Bool", "bool", ""), ("I8", "int8", ""), ("I16", "int16", ""), ("I32", "int32", ""), ("I64", "int64", ""),
    ("Int", "int", ""), ("Uptr", "uintptr", ""), ("F32", "float32", ""), ("F64", "float64", ""),
    ("C64", "complex64", ""), ("C128", "complex128", ""), ("Str", "string", ""), ("UP", "unsafe.Pointer", ""),
    ("Ptr", "*int32", ""), ("Fn", "func(int) int", "f"), ("Any", "any", "i"), ("Sl", "[]byte", ""),
    ("Map", "map[int8]int64", ""), ("Ch", "chan int8", ""),
    ("E", "struct{}", "e"), ("A0", "[0]int64", "e"), ("A3E", "[3]struct{}", "e"), ("SE", "struct{ e struct{} }", "e"),
    ("Flags", "struct{ a, b bool }", ""), ("RGB", "struct{ r, g, b uint8 }", ""), ("RGB2", "[2]RGB", ""),
    ("Pair16", "struct {\n\tx uint16\n\ty [3]uint16\n}", ""), ("Mixed", "struct {\n\tc  byte\n\tf  float32\n\tin Flags\n}", ""),
    ("Wide", "struct {\n\tb byte\n\tn int64\n}", ""), ("I32I64", "struct {\n\ta int32\n\tb int64\n}", ""),
    ("C64B", "struct {\n\tc complex64\n\tb int8\n}", ""), ("AC64", "[3]complex64", ""), ("BC128", "struct {\n\tb int8\n\tc complex128\n}", ""),
    ("StrB", "struct {\n\ts string\n\tb bool\n}", ""), ("SlB", "struct {\n\tb bool\n\ts []int16\n\tc int8\n}", ""),
    ("IfW", "struct {\n\ti any\n\tw uint16\n}", ""), ("Nest", "struct {\n\ta int16\n\tn struct {\n\t\tb int8\n\t\tw Wide\n\t}\n\tc int8\n}", ""),
    ("ANest", "[3]struct {\n\ta int16\n\tb int8\n}", ""), ("EHead", "struct {\n\te struct{}\n\tn int64\n}", ""),
    ("A0Mid", "struct {\n\ta int8\n\tz [0]int64\n\tb int8\n}", ""),
    ("FnB", "struct {\n\ta int8\n\tf func()\n\tb int8\n}", "f"), ("AFn", "[3]func()", "f"),
    ("NFn", "struct {\n\ta int32\n\tn struct {\n\t\tb int8\n\t\tf [2]func()\n\t}\n\tc int8\n}", "f"),
    ("ZT", "struct {\n\ta int64\n\tz struct{}\n}", "z"), ("ZT8", "struct {\n\ta int8\n\tz [0]int64\n}", "z"),
    ("ZTN", "struct {\n\ts ZT\n\tb int8\n}", "z"), ("AZT", "[4]ZT", "z"),
]

HEAD = '''package main

import "unsafe"

func SizeOf[T any]() uintptr {
	var z T
	return unsafe.Sizeof(z)
}

func AlignOf[T any]() uintptr {
	var z T
	return unsafe.Alignof(z)
}

// alignment of a FIELD whose type is a type parameter
func FieldAlign[T any]() uintptr {
	var s struct {
		pad byte
		v   T
	}
	return unsafe.Alignof(s.v)
}

type P[A, B any] struct {
	a A
	b B
}

func OffB[A, B any]() uintptr {
	var p P[A, B]
	return unsafe.Offsetof(p.b)
}

func SizeP[A, B any]() uintptr {
	var p P[A, B]
	return unsafe.Sizeof(p)
}

// the first words of a run-time type descriptor (the same prefix in llgo's runtime/abi.Type and in gc's abi.Type)
type tdesc struct {
	Size_      uintptr
	PtrBytes   uintptr
	Hash       uint32
	TFlag      uint8
	Align_     uint8
	FieldAlign uint8
	Kind_      uint8
}

type eface struct {
	typ  *tdesc
	data unsafe.Pointer
}

func desc(v any) *tdesc { return (*eface)(unsafe.Pointer(&v)).typ }

'''


def pairs(n):
    """(i, j) pairs for P[Ti, Tj]: every type as first and as second member, next to small and large neighbours"""
    out = []
    for i in range(n):
        for j in (1, 4, (i + 1) % n, (i * 7 + 3) % n):      # int8, int64, two rotating partners
            out.append((i, j))
    for j in range(n):
        out.append((1, j))                                   # int8 first: the offset of b is align(Tj)
    return sorted(set(out))


def generate():
    src = [HEAD]
    for name, expr, _ in TYPES:
        src.append("type %s %s\n" % (name, expr))
    blocks = []
    for i, (name, _, fl) in enumerate(TYPES):
        b = ["\t{"]
        b.append("\t\tvar z %s\n\t\tvar s struct {\n\t\t\tpad byte\n\t\t\tv   %s\n\t\t}\n\t\tvar arr [2]%s" % (name, name, name))
        b.append("\t\tprintln(\"G %d\", SizeOf[%s](), AlignOf[%s](), FieldAlign[%s]())" % (i, name, name, name))
        b.append("\t\tprintln(\"K %d\", unsafe.Sizeof(z), unsafe.Alignof(z), unsafe.Alignof(s.v))" % i)
        if "i" not in fl:      # a nil interface value has no dynamic type to read a descriptor from
            b.append("\t\td := desc(z)\n\t\tprintln(\"D %d\", d.Size_, d.Align_, d.FieldAlign)" % i)
        b.append("\t\tprintln(\"A %d\", uintptr(unsafe.Pointer(&arr[1]))-uintptr(unsafe.Pointer(&arr[0])))" % i)
        b.append("\t\t_, _ = s, z\n\t}")
        blocks.append("\n".join(b))
    for i, j in pairs(len(TYPES)):
        a, b2 = TYPES[i][0], TYPES[j][0]
        blocks.append("\t{\n\t\tvar p P[%s, %s]\n" % (a, b2) +
                      "\t\tprintln(\"GO %d %d\", OffB[%s, %s](), SizeP[%s, %s]())\n" % (i, j, a, b2, a, b2) +
                      "\t\tprintln(\"KO %d %d\", unsafe.Offsetof(p.b), unsafe.Sizeof(p))\n" % (i, j) +
                      "\t\tprintln(\"PO %d %d\", uintptr(unsafe.Pointer(&p.b))-uintptr(unsafe.Pointer(&p)))\n\t}" % (i, j))
    fn = []
    for k in range(0, len(blocks), 20):
        fn.append("func part%d() {\n%s\n}\n" % (len(fn), "\n".join(blocks[k:k + 20])))
    src += fn
    src.append("func main() {\n%s\n\tprintln(\"DONE\")\n}\n" % "\n".join("\tpart%d()" % k for k in range(len(fn))))
    return "\n".join(src)
