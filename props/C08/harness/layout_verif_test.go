package ssa

// Injected by /verif (go test -overlay, -tags llvm14,verif); not part of the repository.
//
// C08: for generated Go types and the targets amd64, arm64, arm, 386, wasm ask the
// real code for size / alignment / field offsets in the three places they are computed:
//   go   : the types.Sizes object handed to the type checker (Program.TypeSizes -> goProgram)
//   llvm : Program.Type(T, InGo) + the LLVM data layout (Program.SizeOf / OffsetOf)
//   abi  : the descriptor table (prog.abi.Size / Align / FieldAlign / PtrBytes on the raw type)
// and write one JSON record per (target, type).  The comparison with the Coq model and
// the property oracle (do the three agree?) are done by props/C08/check.py.

import (
	"encoding/json"
	"fmt"
	"go/token"
	"go/types"
	"os"
	"strconv"
	"testing"

	"github.com/goplus/gogen/packages"
	"github.com/xgo-dev/llvm"
)

type c08rng struct{ s uint64 }

func (r *c08rng) next() uint64 {
	r.s += 0x9e3779b97f4a7c15
	z := r.s
	z = (z ^ (z >> 30)) * 0xbf58476d1ce4e5b9
	z = (z ^ (z >> 27)) * 0x94d049bb133111eb
	return z ^ (z >> 31)
}
func (r *c08rng) n(k int) int { return int(r.next() % uint64(k)) }

// type tree shared with the Coq model (check.py prints it as a term of C08.Model.ty)
type c08ty struct {
	K string   `json:"k"`
	W int      `json:"w,omitempty"`
	N int64    `json:"n,omitempty"`
	E *c08ty   `json:"e,omitempty"`
	F []*c08ty `json:"f,omitempty"`
}

type c08rec struct {
	Kind  string `json:"kind"`
	Arch  string `json:"arch"`
	Class string `json:"class,omitempty"`
	Str   string `json:"str,omitempty"`
	T     *c08ty `json:"t,omitempty"`
	// go/types sizes object used for constant folding (Go-level type)
	GS, GA int64
	GO     []int64
	// LLVM data layout of the lowered type
	LS, LA uint64
	LO     []uint64
	// descriptor table (raw type)
	AS, AA, AF, AP uint64
	// the same Sizes object asked about the raw (closure-converted) type, as ssa/abi does
	RS, RA int64
	RO     []int64
	// end of the last pointer word in the LLVM layout (0 = no pointer), ground truth for PtrBytes
	PX uint64
	// target facts
	DL  string `json:"dl,omitempty"`
	Ptr int    `json:"ptr,omitempty"`
	Err string `json:"err,omitempty"`
}

type c08gen struct {
	r    *c08rng
	pkg  *types.Package
	nnam int
}

func (g *c08gen) scalar() *c08ty {
	switch g.r.n(14) {
	case 0:
		return &c08ty{K: "bool"}
	case 1, 2, 3, 4:
		return &c08ty{K: "int", W: []int{1, 2, 4, 8}[g.r.n(4)]}
	case 5:
		return &c08ty{K: "word"}
	case 6:
		return &c08ty{K: "f32"}
	case 7:
		return &c08ty{K: "f64"}
	case 8:
		return &c08ty{K: []string{"c64", "c128"}[g.r.n(2)]}
	case 9:
		return &c08ty{K: []string{"str", "uptr"}[g.r.n(2)]}
	case 10:
		return &c08ty{K: "ptr"}
	case 11:
		return &c08ty{K: "func"}
	case 12:
		return &c08ty{K: []string{"iface", "slice"}[g.r.n(2)]}
	}
	return &c08ty{K: []string{"map", "chan"}[g.r.n(2)]}
}

var c08lens = []int64{0, 0, 1, 1, 2, 3, 4, 7}

func (g *c08gen) gen(depth int) *c08ty {
	k := g.r.n(10)
	if depth <= 0 || k < 4 {
		return g.scalar()
	}
	if k < 6 {
		return &c08ty{K: "arr", N: c08lens[g.r.n(len(c08lens))], E: g.gen(depth - 1)}
	}
	nf := g.r.n(7)
	if g.r.n(8) == 0 {
		nf = 0
	}
	t := &c08ty{K: "struct", F: []*c08ty{}}
	for i := 0; i < nf; i++ {
		// bias towards small scalars (padding) and zero-size members (tail rule)
		switch g.r.n(6) {
		case 0:
			t.F = append(t.F, &c08ty{K: "int", W: 1})
		case 1:
			if g.r.n(2) == 0 {
				t.F = append(t.F, &c08ty{K: "struct", F: []*c08ty{}})
			} else {
				t.F = append(t.F, &c08ty{K: "arr", N: 0, E: g.scalar()})
			}
		default:
			t.F = append(t.F, g.gen(depth-1))
		}
	}
	return t
}

func c08s(fs ...*c08ty) *c08ty { return &c08ty{K: "struct", F: append([]*c08ty{}, fs...)} }
func c08a(n int64, e *c08ty) *c08ty { return &c08ty{K: "arr", N: n, E: e} }
func c08k(k string) *c08ty          { return &c08ty{K: k} }
func c08i(w int) *c08ty             { return &c08ty{K: "int", W: w} }

// hand-written boundary shapes, always included
func c08boundary() []*c08ty {
	e := c08s()
	out := []*c08ty{
		c08k("bool"), c08i(1), c08i(2), c08i(4), c08i(8), c08k("word"), c08k("f32"), c08k("f64"), c08k("c64"), c08k("c128"),
		c08k("str"), c08k("uptr"), c08k("ptr"), c08k("func"), c08k("iface"), c08k("slice"), c08k("map"), c08k("chan"),
		e, c08a(0, c08i(8)), c08a(0, e), c08a(3, e), c08a(1, c08k("func")), c08a(3, c08k("func")),
		c08s(c08i(4), c08i(8)), c08s(c08i(8), c08i(4)), c08s(c08i(1), c08i(8), c08i(1)),
		c08s(c08i(8), e), c08s(c08i(1), e), c08s(e, c08i(8)), c08s(e), c08s(e, e), c08s(c08i(1), c08a(0, c08i(8))),
		c08s(c08s(c08i(8), e), c08i(1)), c08a(4, c08s(c08i(8), e)), c08s(c08i(4), c08a(0, c08k("func"))),
		c08s(c08i(1), c08k("func"), c08i(1)), c08s(c08k("func"), c08i(8)), c08s(c08k("func"), e),
		c08a(3, c08s(c08i(1), c08k("func"))), c08s(c08i(4), c08s(c08i(1), c08a(2, c08k("func"))), c08i(1)),
		c08s(c08k("ptr"), c08i(8)), c08s(c08i(8), c08k("ptr")), c08s(c08k("ptr"), c08k("ptr"), c08i(1)),
		c08s(c08k("str"), c08i(4)), c08s(c08k("iface"), c08k("word")), c08s(c08k("slice"), c08k("bool")),
		c08a(2, c08s(c08k("ptr"), c08i(8))), c08a(0, c08k("ptr")), c08s(c08a(0, c08k("ptr")), c08i(2)),
		c08s(c08s(c08i(4), c08i(1)), c08i(1)), c08s(c08a(3, c08s(c08i(2), c08i(1))), c08i(1)),
		c08s(c08k("c128"), c08i(1)), c08s(c08i(1), c08k("c64")), c08s(c08i(4), c08k("f64")), c08s(c08i(4), c08k("c128")),
		c08a(3, c08s(c08i(4), c08i(8), c08i(4))), c08s(c08i(1), c08a(2, c08i(8))), c08s(c08k("map"), c08i(8), c08k("chan")),
		c08s(c08i(2), c08s(c08i(1), c08s(c08i(8), e), e), c08i(1)),
	}
	return out
}

func (g *c08gen) name() string { g.nnam++; return "N" + strconv.Itoa(g.nnam) }

func (g *c08gen) named(u types.Type) types.Type {
	return types.NewNamed(types.NewTypeName(token.NoPos, g.pkg, g.name(), nil), u, nil)
}

// the go/types value of a tree; named wrappers and signedness are chosen at random (layout-neutral)
func (g *c08gen) build(t *c08ty) types.Type {
	var u types.Type
	switch t.K {
	case "bool":
		u = types.Typ[types.Bool]
	case "int":
		s := g.r.n(2)
		switch t.W {
		case 1:
			u = types.Typ[[]types.BasicKind{types.Int8, types.Uint8}[s]]
		case 2:
			u = types.Typ[[]types.BasicKind{types.Int16, types.Uint16}[s]]
		case 4:
			u = types.Typ[[]types.BasicKind{types.Int32, types.Uint32}[s]]
		default:
			u = types.Typ[[]types.BasicKind{types.Int64, types.Uint64}[s]]
		}
	case "word":
		u = types.Typ[[]types.BasicKind{types.Int, types.Uint, types.Uintptr}[g.r.n(3)]]
	case "f32":
		u = types.Typ[types.Float32]
	case "f64":
		u = types.Typ[types.Float64]
	case "c64":
		u = types.Typ[types.Complex64]
	case "c128":
		u = types.Typ[types.Complex128]
	case "str":
		u = types.Typ[types.String]
	case "uptr":
		u = types.Typ[types.UnsafePointer]
	case "ptr":
		u = types.NewPointer(g.build(g.scalar()))
	case "func":
		var ps, rs []*types.Var
		for i, n := 0, g.r.n(3); i < n; i++ {
			ps = append(ps, types.NewParam(token.NoPos, g.pkg, "", g.build(g.scalar())))
		}
		for i, n := 0, g.r.n(3); i < n; i++ {
			rs = append(rs, types.NewParam(token.NoPos, g.pkg, "", g.build(g.scalar())))
		}
		u = types.NewSignatureType(nil, nil, nil, types.NewTuple(ps...), types.NewTuple(rs...), false)
	case "iface":
		if g.r.n(2) == 0 {
			u = types.NewInterfaceType(nil, nil)
		} else {
			sig := types.NewSignatureType(nil, nil, nil, nil, nil, false)
			it := types.NewInterfaceType([]*types.Func{types.NewFunc(token.NoPos, g.pkg, "M", sig)}, nil)
			it.Complete()
			u = it
		}
	case "slice":
		u = types.NewSlice(g.build(g.scalar()))
	case "map":
		u = types.NewMap(types.Typ[types.Int32], g.build(g.scalar()))
	case "chan":
		u = types.NewChan(types.SendRecv, g.build(g.scalar()))
	case "arr":
		u = types.NewArray(g.build(t.E), t.N)
	case "struct":
		var fs []*types.Var
		for i, f := range t.F {
			fs = append(fs, types.NewField(token.NoPos, g.pkg, "F"+strconv.Itoa(i), g.build(f), false))
		}
		u = types.NewStruct(fs, nil)
	default:
		panic("c08: kind " + t.K)
	}
	if g.r.n(5) == 0 {
		return g.named(u)
	}
	return u
}

// end offset of the last pointer-typed leaf of an LLVM type (0 if none)
func c08ptrEnd(td llvm.TargetData, t llvm.Type, base uint64) uint64 {
	switch t.TypeKind() {
	case llvm.PointerTypeKind:
		return base + uint64(td.PointerSize())
	case llvm.StructTypeKind:
		var end uint64
		for i, e := range t.StructElementTypes() {
			if x := c08ptrEnd(td, e, base+td.ElementOffset(t, i)); x > end {
				end = x
			}
		}
		return end
	case llvm.ArrayTypeKind:
		n := t.ArrayLength()
		if n == 0 {
			return 0
		}
		e := t.ElementType()
		return c08ptrEnd(td, e, base+uint64(n-1)*td.TypeAllocSize(e))
	}
	return 0
}

func c08fields(T types.Type) []*types.Var {
	s, ok := T.Underlying().(*types.Struct)
	if !ok {
		return nil
	}
	fs := make([]*types.Var, s.NumFields())
	for i := range fs {
		fs[i] = s.Field(i)
	}
	return fs
}

func TestVerifC08(t *testing.T) {
	seed, _ := strconv.ParseUint(os.Getenv("VERIF_SEED"), 10, 64)
	n, _ := strconv.Atoi(os.Getenv("VERIF_N"))
	if n == 0 {
		n = 300
	}
	f, err := os.Create(os.Getenv("VERIF_OUT"))
	if err != nil {
		t.Fatal(err)
	}
	defer f.Close()
	enc := json.NewEncoder(f)
	Initialize(InitAll)

	imp := packages.NewImporter(token.NewFileSet())
	rt, err := imp.Import(PkgRuntime)
	if err != nil {
		t.Fatal("load runtime failed:", err)
	}

	g := &c08gen{r: &c08rng{s: seed*7919 + 8}, pkg: types.NewPackage("verif/c08", "c08")}
	trees := c08boundary()
	nb := len(trees)
	for i := 0; i < n; i++ {
		trees = append(trees, g.gen(1+g.r.n(4)))
	}

	for _, arch := range []string{"amd64", "arm64", "arm", "386", "wasm"} {
		prog := NewProgram(&Target{GOOS: "linux", GOARCH: arch})
		prog.SetRuntime(rt)
		// the sizes object exactly as internal/build.Do sets it up (loader default + wasm override)
		base := types.SizesFor("gc", arch)
		if arch == "wasm" {
			base = &types.StdSizes{WordSize: 4, MaxAlign: 4}
		}
		sz := prog.TypeSizes(base)
		enc.Encode(c08rec{Kind: "target", Arch: arch, DL: prog.DataLayout(), Ptr: prog.PointerSize()})
		for i, tr := range trees {
			rec := c08rec{Kind: "lay", Arch: arch, T: tr, Class: "random"}
			if i < nb {
				rec.Class = "boundary"
			}
			func() {
				defer func() {
					if e := recover(); e != nil {
						rec.Kind = "panic"
						rec.Err = fmt.Sprint(e)
					}
				}()
				T := g.build(tr)
				rec.Str = types.TypeString(T, func(*types.Package) string { return "" })
				if len(rec.Str) > 160 {
					rec.Str = rec.Str[:160]
				}
				rec.GS, rec.GA = sz.Sizeof(T), sz.Alignof(T)
				rec.GO = []int64{}
				if fs := c08fields(T); fs != nil {
					rec.GO = append(rec.GO, sz.Offsetsof(fs)...)
				}
				ty := prog.Type(T, InGo)
				rec.LS, rec.LA = prog.SizeOf(ty), uint64(prog.td.ABITypeAlignment(ty.ll))
				rec.LO = []uint64{}
				for j := range c08fields(T) {
					rec.LO = append(rec.LO, prog.OffsetOf(ty, j))
				}
				rec.PX = c08ptrEnd(prog.td, ty.ll, 0)
				raw := ty.RawType()
				rec.AS, rec.AA = uint64(prog.abi.Size(raw)), uint64(prog.abi.Align(raw))
				rec.AF, rec.AP = uint64(prog.abi.FieldAlign(raw)), uint64(prog.abi.PtrBytes(raw))
				rec.RS, rec.RA = sz.Sizeof(raw), sz.Alignof(raw)
				rec.RO = []int64{}
				if fs := c08fields(raw); fs != nil {
					rec.RO = append(rec.RO, sz.Offsetsof(fs)...)
				}
			}()
			enc.Encode(rec)
		}
	}
}
