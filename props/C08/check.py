"""C08 - type size, alignment and field offsets agree wherever they are computed."""
import json, os, re, collections
import sys
import vlib, e2e

sys.path.insert(0, os.path.dirname(os.path.abspath(__file__)))

H = os.path.join(os.path.dirname(os.path.abspath(__file__)), "harness")

# which lowering of ssa/abi/type.go the model describes (see Model.v abi_align / abi_ptrbytes): the repaired one
FIX_ALIGN = os.environ.get("VERIF_C08_FIX_ALIGN", "true")
FIX_PTRBYTES = os.environ.get("VERIF_C08_FIX_PTRBYTES", "true")

# model targets (coq/theories/C08/Model.v) and the facts of ssa/target.go + go/types they stand for
TARGETS = {"amd64": ("amd64", 8, 8), "arm64": ("arm64", 8, 8), "arm": ("arm", 4, 8),
           "386": ("i386", 4, 4), "wasm": ("wasm", 4, 8)}   # arch -> (Coq name, ptr, LLVM i64 ABI align)


def coq_ty(t):
    k = t["k"]
    if k == "int":
        return "(TInt %d)" % t["w"]
    if k == "arr":
        return "(TArr %d %s)" % (t.get("n", 0), coq_ty(t["e"]))
    if k == "struct":
        return "(TStruct [%s])" % "; ".join(coq_ty(f) for f in t.get("f") or [])
    return {"bool": "TBool", "word": "TWord", "f32": "TF32", "f64": "TF64", "c64": "TC64", "c128": "TC128",
            "str": "TStr", "uptr": "TUPtr", "ptr": "TPtr", "func": "TFunc", "iface": "TIface", "slice": "TSlice",
            "map": "TMap", "chan": "TChan"}[k]


def nl(xs):
    return "[" + ";".join(str(x) for x in xs) + "]%N"


# ---- structural predicates used to NAME a disagreement (the numbers come from the real code) ----
def zero_size(t):
    k = t["k"]
    if k == "arr":
        return t.get("n", 0) == 0 or zero_size(t["e"])
    if k == "struct":
        return all(zero_size(f) for f in t.get("f") or [])
    return False


def has_zero_tail(t):
    """some struct inside t ends in a zero-size field that is not at offset 0 (gc pads it, LLVM does not)"""
    k = t["k"]
    if k == "arr":
        return has_zero_tail(t["e"])
    if k == "struct":
        fs = t.get("f") or []
        if any(has_zero_tail(f) for f in fs):
            return True
        return len(fs) > 1 and zero_size(fs[-1]) and not all(zero_size(f) for f in fs[:-1])
    return False


def has_align8(t):
    k = t["k"]
    if k == "arr":
        return has_align8(t["e"])
    if k == "struct":
        return any(has_align8(f) for f in t.get("f") or [])
    return k in ("f64", "c128") or (k == "int" and t["w"] == 8)


def has_nested_aggregate(t):
    k = t["k"]
    if k == "arr":
        return t["e"]["k"] in ("arr", "struct") or has_nested_aggregate(t["e"])
    if k == "struct":
        return any(f["k"] in ("arr", "struct") for f in t.get("f") or [])
    return False


def oracle(r):
    """the property itself on the numbers the real code returned; returns list of (key, what)"""
    t, arch = r["t"], r["arch"]
    out = []
    go = (r["GS"], r["GA"], r["GO"])
    ll = (r["LS"], r["LA"], r["LO"])
    ab = (r["AS"], r["AA"])
    raw = (r["RS"], r["RA"])

    def known_target_class():
        if has_zero_tail(t) and arch != "wasm":
            return "zero-size-tail-go-pads-llvm-does-not"
        if arch in ("arm", "wasm") and has_align8(t):
            return arch + "-align64-go4-llvm8"
        if arch == "wasm" and has_nested_aggregate(t):
            return "wasm-stdsizes-nested-aggregate-unpadded"
        return None

    if go != ll:
        key = known_target_class() or "go-vs-llvm-disagree"
        out.append((key, "%s %s: go/types sizes (size,align,offsets)=%s, LLVM data layout=%s" % (arch, r["str"], go, ll)))
    if ab != (r["LS"], r["LA"]) or r["AF"] != r["AA"]:
        key = known_target_class()   # (the 386 Align(int64)=8 table entry is repaired: Builder.Align64)
        out.append((key or "abi-vs-llvm-disagree",
                    "%s %s: descriptor (Size,Align)=%s FieldAlign=%s, LLVM=%s" % (arch, r["str"], ab, r["AF"], ll[:2])))
    if raw != go[:2] and not (known_target_class()):
        out.append(("go-sizes-raw-vs-source-type-disagree", "%s %s: Sizes on raw type %s, on Go type %s" % (arch, r["str"], raw, go[:2])))
    # pointer words lie below PtrBytes; PtrBytes is 0 iff there is no pointer
    px, pb = r["PX"], r["AP"]
    if px > pb or (px == 0) != (pb == 0) or pb > max(r["AS"], r["LS"]):
        key = known_target_class()   # (the PtrBytes loop is repaired; only target-level offset disagreements remain)
        out.append((key or "ptrbytes-wrong", "%s %s: last pointer word ends at %d, descriptor PtrBytes=%d" % (arch, r["str"], px, pb)))
    # internal sanity of each computation: offsets aligned and increasing, size multiple of align
    for nm, (s, a, offs) in (("go", go), ("llvm", ll)):
        bad = a < 1 or (a & (a - 1)) or s % a or any(o % 1 for o in offs) or any(offs[i] > offs[i + 1] for i in range(len(offs) - 1)) \
            or any(o > s for o in offs)
        if bad:
            out.append((("%s-layout-malformed" % nm), "%s %s: size %d align %d offsets %s" % (arch, r["str"], s, a, offs)))
    if r["AA"] and r["AS"] % r["AA"]:
        key = known_target_class()
        out.append((key or "abi-size-not-multiple-of-align", "%s %s: Size %d Align %d" % (arch, r["str"], r["AS"], r["AA"])))
    return out


# ---- the host C compiler on C-compatible shapes (amd64) ----
C_SCALAR = {"bool": "_Bool", "word": "long", "f32": "float", "f64": "double", "c64": "float _Complex", "c128": "double _Complex",
            "uptr": "void*", "ptr": "void*", "map": "void*", "chan": "void*"}


def c_compatible(t):
    k = t["k"]
    if k == "int" or k in C_SCALAR:
        return True
    if k == "arr":
        return t.get("n", 0) > 0 and c_compatible(t["e"])
    if k == "struct":
        fs = t.get("f") or []
        return len(fs) > 0 and all(c_compatible(f) for f in fs)
    return False


def c_decl(t, name):
    dims = ""
    while t["k"] == "arr":
        dims += "[%d]" % t["n"]
        t = t["e"]
    k = t["k"]
    if k == "int":
        base = "int%d_t" % (8 * t["w"])
    elif k == "struct":
        base = "struct { %s }" % " ".join(c_decl(f, "f%d" % i) + ";" for i, f in enumerate(t["f"]))
    else:
        base = C_SCALAR[k]
    return "%s %s%s" % (base, name, dims)


def gcc_layout(ck, lay):
    """sizeof/_Alignof/offsetof from the host C compiler for the C-compatible structs among the amd64 records"""
    sel = [r for r in lay if r["arch"] == "amd64" and r["t"]["k"] == "struct" and c_compatible(r["t"])][:400]
    if not sel:
        return 0
    src = ["#include <stdio.h>", "#include <stddef.h>", "#include <stdint.h>"]
    body = []
    for i, r in enumerate(sel):
        src.append("typedef %s;" % c_decl(r["t"], "T%d" % i))
        offs = "".join(' printf(" %%zu", offsetof(T%d, f%d));' % (i, j) for j in range(len(r["t"]["f"])))
        body.append('printf("%d %%zu %%zu", sizeof(T%d), _Alignof(T%d));%s printf("\\n");' % (i, i, i, offs))
    src.append("int main(void) {\n" + "\n".join(body) + "\nreturn 0; }")
    cp = os.path.join(ck.work, "c08_layout.c")
    open(cp, "w").write("\n".join(src) + "\n")
    rc, out = vlib.sh(["gcc", "-O0", "-o", cp[:-2], cp], timeout=300)
    if rc != 0:
        ck.correspondence_broken("gcc:c08_layout", out[-1500:])
        return 0
    rc, out = vlib.sh([cp[:-2]], timeout=60)
    n = 0
    for line in out.splitlines():
        xs = [int(x) for x in line.split()]
        r = sel[xs[0]]
        n += 1
        cl = (xs[1], xs[2], xs[3:])
        for nm, got in (("llvm", (r["LS"], r["LA"], r["LO"])), ("go", (r["GS"], r["GA"], r["GO"])), ("abi", (r["AS"], r["AA"], cl[2]))):
            if got != cl:
                ck.violation("c-compatible-layout-differs-from-host-cc-" + nm,
                             "amd64 %s: host C compiler (size,align,offsets)=%s, %s=%s" % (r["str"], cl, nm, got), r)
    return n


def run_e2e_zero_tail(ck):
    """thorough tier: compiled program vs the reference toolchain on a struct with a zero-size tail field
    (unsafe.Sizeof/Offsetof constants, pointer differences, reflect, slices through reflect)"""
    L = e2e.LLGo(ck)
    if not L.ok:
        ck.correspondence_broken("e2e:llgo-build", L.buildlog[-1000:])
        return 0
    d = os.path.join(ck.work, "prog_zt")
    e2e.write_module(d, {"main.go": open(os.path.join(H, "e2e_zero_tail", "main.go.txt")).read()})
    rc, out = L.build(d, os.path.join(ck.work, "zt.llgo"))
    rc2, out2 = e2e.go_build(d, os.path.join(ck.work, "zt.go"))
    if rc != 0 or rc2 != 0:
        ck.correspondence_broken("e2e:build-zero-tail", (out + out2)[-1500:])
        return 0
    _, _, a = L.run_bin(os.path.join(ck.work, "zt.llgo"))
    _, _, b = e2e.run_plain(os.path.join(ck.work, "zt.go"))
    la, lb = a.splitlines(), b.splitlines()
    for x, y in zip(la, lb):
        if x != y:
            ck.violation("e2e-zero-size-tail", "compiled program prints %r, reference %r" % (x, y), {"llgo": x, "go": y})
    if len(la) != len(lb):
        ck.violation("e2e-zero-size-tail-crash", "llgo program printed %d lines, reference %d" % (len(la), len(lb)), {"llgo": la[-3:]})
    return len(lb)


def run_generic_e2e(ck):
    """compiled program (llgo) vs its own folded constants / descriptors / pointer differences and vs the reference
    toolchain, for the NON-constant unsafe.Sizeof/Alignof/Offsetof of generic code (ssa BuiltinCall).
    Runs in a worker thread; returns (n lines, [(key, what, replay)], broken or None)."""
    import genprog
    try:
        L = e2e.LLGo(ck)
        if not L.ok:
            return 0, [], ("e2e:llgo-build", L.buildlog[-1000:])
        d = os.path.join(ck.work, "prog_generic")
        e2e.write_module(d, {"main.go": genprog.generate()})
        rc, out = L.build(d, os.path.join(ck.work, "generic.llgo"))
        rc2, out2 = e2e.go_build(d, os.path.join(ck.work, "generic.go"))
        if rc != 0 or rc2 != 0:
            return 0, [], ("e2e:build-generic", (out + out2)[-1500:])
        _, _, a = L.run_bin(os.path.join(ck.work, "generic.llgo"))
        _, _, b = e2e.run_plain(os.path.join(ck.work, "generic.go"))
    except Exception as ex:    # noqa: BLE001
        return 0, [], ("e2e:generic", repr(ex))

    def parse(txt):
        o = {}
        for line in txt.splitlines():
            m = re.match(r"(G|K|D|A) (\d+) ([\d ]+)$", line) or re.match(r"(GO|KO|PO) (\d+ \d+) ([\d ]+)$", line)
            if m:
                o[(m.group(1), m.group(2))] = [int(x) for x in m.group(3).split()]
        return o
    la, lb = parse(a), parse(b)
    if "DONE" not in a or "DONE" not in b or set(la) != set(lb):
        return 0, [], ("e2e:run-generic", "llgo %d lines, reference %d lines; tail %s" % (len(la), len(lb), a[-200:]))
    T = genprog.TYPES
    viols = []

    def flags(idx):
        xs = [T[int(x)][2] for x in idx.split()]
        fl = "".join(xs)
        if len(xs) == 2 and "e" in xs[1] and "e" not in xs[0]:
            fl += "z"       # P[A, B] with a zero-size B behind a sized A ends in a zero-size tail itself
        return fl

    def names(idx):
        return ", ".join(T[int(x)][0] for x in idx.split())

    def report(generic_key, idx, what, replay):
        viols.append(("e2e-zero-size-tail" if "z" in flags(idx) else generic_key, what, replay))

    for (tag, idx), v in sorted(la.items()):
        if tag == "G":
            k, dsc, arr = la[("K", idx)], la.get(("D", idx)), la[("A", idx)]
            if v != k or (dsc is not None and dsc != k) or arr != [v[0]]:
                report("generic-sizeof-alignof-disagrees-with-constant", idx,
                       "type %s = %s: generic Sizeof/Alignof/field Alignof %s, folded constants %s, descriptor Size_/Align_/FieldAlign_ %s, "
                       "array stride %s" % (names(idx), T[int(idx)][1].replace("\n", " ").replace("\t", ""), v, k, dsc, arr),
                       {"type": T[int(idx)][:2], "generic": v, "constant": k, "descriptor": dsc, "stride": arr})
        if tag == "GO":
            k, po = la[("KO", idx)], la[("PO", idx)]
            if v != k or po != [v[0]]:
                report("generic-offsetof-disagrees-with-constant", idx,
                       "P[%s]: generic Offsetof(p.b)/Sizeof(p) %s, folded constants %s, &p.b-&p %s" % (names(idx), v, k, po),
                       {"types": names(idx), "generic": v, "constant": k, "ptrdiff": po})
        # the reference toolchain (func values are two words here by design; zero-size tails are the recorded finding)
        if "f" not in flags(idx) and "z" not in flags(idx) and v != lb[(tag, idx)]:
            viols.append(("layout-differs-from-reference-toolchain",
                          "%s %s (%s): compiled program prints %s, reference toolchain %s" % (tag, idx, names(idx), v, lb[(tag, idx)]),
                          {"line": tag + " " + idx, "types": names(idx), "llgo": v, "go": lb[(tag, idx)]}))
    return len(la), viols, None


def run_harness(ck, n):
    out = os.path.join(ck.work, "c08.jsonl")
    ovp = os.path.join(ck.work, "overlay_c08_ssa.json")
    json.dump({"Replace": {
        os.path.join(vlib.REPO, "ssa", "zz_c08_verif_test.go"): os.path.join(H, "layout_verif_test.go"),
        os.path.join(vlib.REPO, "ssa", "z_verif_opaque.go"): os.path.join(vlib.ROOT, "toolchain", "src", "z_verif_opaque.go"),
    }}, open(ovp, "w"))
    cache = os.path.join(ck.work, "xdgcache_c08")
    os.makedirs(cache, exist_ok=True)
    env = e2e.tc_env(cache, {"VERIF_OUT": out, "VERIF_N": str(n), "VERIF_SEED": str(ck.seed)})
    rc, log = vlib.sh(["go", "test", "-tags", "llvm14,verif", "-vet=off", "-count=1", "-overlay", ovp,
                       "-run", "TestVerifC08", "-timeout", "900s", "./ssa"], cwd=vlib.REPO, env=env, timeout=1500)
    if rc != 0 or not os.path.exists(out):
        ck.correspondence_broken("harness:ssa", log[-2000:])
        return []
    return [json.loads(l) for l in open(out)]


def run(ck):
    ck.trusted = ["Coq 8.16.1 kernel (coqc, vm_compute)",
                  "Go overlay harness props/C08/harness/layout_verif_test.go (go/types construction of the generated types; LLVM 14 data layouts)",
                  "hand-written model coq/theories/C08/Model.v tied by correspondence on every run",
                  "go/types gcSizes/StdSizes (upstream) and LLVM StructLayout are modelled, not verified"]
    ck.assumptions = ["sizes fit in int64 (overflow results of go/types are not modelled)",
                      "named types, signedness, pointer/elem types and method sets are layout-neutral (chosen at random by the harness)",
                      "targets: GOOS=linux, GOARCH in amd64 arm64 arm 386 wasm with the Sizes object internal/build.Do installs"]
    ck.coq_build("C08")
    ck.coq_props("LLGoV.C08.Props", "theories/C08/Props.v")
    ck.phase("coq")

    n = {"quick": 700, "thorough": 20000}[ck.tier]
    from concurrent.futures import ThreadPoolExecutor
    pool = ThreadPoolExecutor(1)
    fut = pool.submit(run_generic_e2e, ck)      # end-to-end part builds while the in-process harness runs
    recs = run_harness(ck, n)
    ck.phase("harness")
    lay = [r for r in recs if r["kind"] == "lay"]
    for r in recs:
        if r["kind"] == "panic":
            ck.violation("layout-query-panics", "%s %s: %s" % (r["arch"], json.dumps(r["t"]), r["err"]), r)
        if r["kind"] == "target":
            # T1: the data layout string of ssa/target.go carries the facts the model's target record assumes
            name, ptr, a64 = TARGETS[r["arch"]]
            dl = r["dl"]
            p = re.search(r"-p:(\d+):", dl)
            dptr = int(p.group(1)) // 8 if p else 8
            i64 = re.search(r"-i64:(\d+)", dl)
            # LLVM default for i64 is abi 32 bits (4 bytes)
            d64 = int(i64.group(1)) // 8 if i64 else 4
            if dptr != ptr or d64 != a64 or r["ptr"] != ptr:
                ck.violation("target-datalayout-changed", "%s: data layout %s (ptr %d, i64 align %d) but the model assumes ptr %d, i64 align %d"
                             % (r["arch"], dl, dptr, d64, ptr, a64), r)

    # model vs implementation
    hdr = ("From LLGoV Require Import Lib.Common C08.Model.\nLocal Open Scope N_scope.\n"
           "Definition FIX_ALIGN := %s.\nDefinition FIX_PTRBYTES := %s.\n" % (FIX_ALIGN, FIX_PTRBYTES))
    terms = []
    for r in lay:
        obs = [r["GS"], r["GA"], r["LS"], r["LA"], r["AS"], r["AA"], r["AP"], r["RS"], r["RA"], r["PX"]] + r["GO"] + r["LO"] + r["RO"]
        terms.append("((%s, %s), %s)" % (TARGETS[r["arch"]][0], coq_ty(r["t"]), nl(obs)))
    bad = set(ck.coq_mismatches(hdr, terms, "(fun x => observe FIX_ALIGN FIX_PTRBYTES (fst x) (snd x))", "nlist_eqb", "c08_lay")) if terms else set()
    ck.phase("model")

    classes = collections.Counter()
    disagree = collections.Counter()
    distinct = set()
    nmodel_bad = 0
    for i, r in enumerate(lay):
        classes[r["arch"] + ":" + r["class"]] += 1
        distinct.add(json.dumps(r["t"], sort_keys=True))
        viols = oracle(r)
        if i in bad:
            nmodel_bad += 1
            # the real code no longer computes what the verified model computes on this input
            unknown = [v for v in viols if v[0] not in ck.known]
            if unknown:
                for k, w in unknown:
                    ck.violation(k if k.endswith("disagree") or k.endswith("wrong") or k.endswith("malformed") else "layout-changed:" + k, w, r)
            else:
                ck.violation("layout-differs-from-model", "%s %s: observed %s" % (r["arch"], r["str"], terms[i][-200:]), r)
            continue
        for k, w in viols:
            disagree[k] += 1
            ck.violation(k, w, r)
    if nmodel_bad:
        ck.correspondence_broken("C08.Model/observe", {"n_mismatch": nmodel_bad})
    ngcc = gcc_layout(ck, lay)
    ck.phase("gcc")
    ngen, gviols, gbroken = fut.result()
    pool.shutdown()
    if gbroken:
        ck.correspondence_broken(gbroken[0], gbroken[1])
    for k, w, r in gviols:
        ck.violation(k, w, r)
    ngcc += ngen
    ck.cov["generic_e2e_lines"] = ngen
    ck.phase("generic-e2e")
    if ck.tier == "thorough":
        ngcc += run_e2e_zero_tail(ck)
        ck.phase("e2e")
    ck.add_cov(evaluations=len(lay) + ngcc, host_cc_structs=ngcc, nontrivial=len(distinct), classes=dict(classes), disagreements=dict(disagree),
               samples=[{"arch": r["arch"], "type": r["str"], "go": [r["GS"], r["GA"], r["GO"]], "llvm": [r["LS"], r["LA"], r["LO"]],
                         "abi": [r["AS"], r["AA"], r["AP"]]} for r in lay[40:43]])
    ck.cov["rule"] = ("boundary list (every scalar, zero-size tails, nested padding, func values in arrays/structs, pointer-then-scalar) + "
                      "random type trees (depth<=4, <=6 fields, array lengths {0,1,2,3,4,7}) built as go/types values, each queried on the real "
                      "goProgram (types.Sizes), Program.SizeOf/OffsetOf (LLVM data layout) and abi.Builder for amd64 arm64 arm 386 wasm; "
                      "every record compared with the Coq model (vm_compute) and checked for three-way agreement; plus a compiled println-only "
                      "program: generic SizeOf[T]/AlignOf[T]/field Alignof and Offsetof(p.b)/Sizeof of P[A,B] (the non-constant BuiltinCall "
                      "path) for 47 boundary types and 226 pairs vs the folded constants, the descriptor words, pointer differences and the "
                      "reference toolchain")
    return ck.finish()
