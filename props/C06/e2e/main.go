package main

// Generated once by /verif (props/C06): maps whose key or value type is larger than 128 bytes are
// stored indirectly (the bucket slot holds a pointer); 128 bytes is the last direct size.
// Each case runs in its own process (argument = case name) and prints with println only.

type V128 [16]uint64

func caseV128() {
	m := map[int]V128{}
	for i := 0; i < 60; i++ {
		var v V128
		v[15] = uint64(i + 1)
		m[i] = v
	}
	s := 0
	for i := 0; i < 60; i++ {
		v := m[i]
		s += int(v[15])
	}
	delete(m, 7)
	v, ok := m[7]
	r := 0
	for _, v := range m {
		r += int(v[15])
	}
	v2 := m[8]
	v = v2
	v[15] = 99
	m[8] = v
	v = m[8]
	println("V128", len(m), s, ok, r, int(v[15]))
}

type V129 struct{ A [129]byte }

func caseV129() {
	m := map[int]V129{}
	for i := 0; i < 60; i++ {
		var v V129
		v.A[128] = byte(i + 1)
		m[i] = v
	}
	s := 0
	for i := 0; i < 60; i++ {
		v := m[i]
		s += int(v.A[128])
	}
	delete(m, 7)
	v, ok := m[7]
	r := 0
	for _, v := range m {
		r += int(v.A[128])
	}
	v2 := m[8]
	v = v2
	v.A[128] = 99
	m[8] = v
	v = m[8]
	println("V129", len(m), s, ok, r, int(v.A[128]))
}

type V136 [17]uint64

func caseV136() {
	m := map[int]V136{}
	for i := 0; i < 60; i++ {
		var v V136
		v[16] = uint64(i + 1)
		m[i] = v
	}
	s := 0
	for i := 0; i < 60; i++ {
		v := m[i]
		s += int(v[16])
	}
	delete(m, 7)
	v, ok := m[7]
	r := 0
	for _, v := range m {
		r += int(v[16])
	}
	v2 := m[8]
	v = v2
	v[16] = 99
	m[8] = v
	v = m[8]
	println("V136", len(m), s, ok, r, int(v[16]))
}

type V200 struct{ A [24]uint64; B uint32 }

func caseV200() {
	m := map[int]V200{}
	for i := 0; i < 60; i++ {
		var v V200
		v.A[23] = uint64(i + 1)
		m[i] = v
	}
	s := 0
	for i := 0; i < 60; i++ {
		v := m[i]
		s += int(v.A[23])
	}
	delete(m, 7)
	v, ok := m[7]
	r := 0
	for _, v := range m {
		r += int(v.A[23])
	}
	v2 := m[8]
	v = v2
	v.A[23] = 99
	m[8] = v
	v = m[8]
	println("V200", len(m), s, ok, r, int(v.A[23]))
}

type V256 [32]uint64

func caseV256() {
	m := map[int]V256{}
	for i := 0; i < 60; i++ {
		var v V256
		v[31] = uint64(i + 1)
		m[i] = v
	}
	s := 0
	for i := 0; i < 60; i++ {
		v := m[i]
		s += int(v[31])
	}
	delete(m, 7)
	v, ok := m[7]
	r := 0
	for _, v := range m {
		r += int(v[31])
	}
	v2 := m[8]
	v = v2
	v[31] = 99
	m[8] = v
	v = m[8]
	println("V256", len(m), s, ok, r, int(v[31]))
}

type V264 [33]uint64

func caseV264() {
	m := map[int]V264{}
	for i := 0; i < 60; i++ {
		var v V264
		v[32] = uint64(i + 1)
		m[i] = v
	}
	s := 0
	for i := 0; i < 60; i++ {
		v := m[i]
		s += int(v[32])
	}
	delete(m, 7)
	v, ok := m[7]
	r := 0
	for _, v := range m {
		r += int(v[32])
	}
	v2 := m[8]
	v = v2
	v[32] = 99
	m[8] = v
	v = m[8]
	println("V264", len(m), s, ok, r, int(v[32]))
}

type V300 struct{ A [37]uint64; B uint32 }

func caseV300() {
	m := map[int]V300{}
	for i := 0; i < 60; i++ {
		var v V300
		v.A[36] = uint64(i + 1)
		m[i] = v
	}
	s := 0
	for i := 0; i < 60; i++ {
		v := m[i]
		s += int(v.A[36])
	}
	delete(m, 7)
	v, ok := m[7]
	r := 0
	for _, v := range m {
		r += int(v.A[36])
	}
	v2 := m[8]
	v = v2
	v.A[36] = 99
	m[8] = v
	v = m[8]
	println("V300", len(m), s, ok, r, int(v.A[36]))
}

type K128 [16]uint64

func caseK128() {
	m := map[K128]int{}
	mk := func(i int) K128 {
		var k K128
		k[15] = uint64(i + 1)
		return k
	}
	for i := 0; i < 60; i++ {
		m[mk(i)] = i * 3
	}
	s := 0
	for i := 0; i < 60; i++ {
		s += m[mk(i)]
	}
	delete(m, mk(7))
	_, ok := m[mk(7)]
	_, ok2 := m[mk(100)]
	r := 0
	for k, v := range m {
		r += int(k[15]) + v
	}
	m[mk(8)] = 1000
	println("K128", len(m), s, ok, ok2, r, m[mk(8)])
}

type K129 struct{ A [129]byte }

func caseK129() {
	m := map[K129]int{}
	mk := func(i int) K129 {
		var k K129
		k.A[128] = byte(i + 1)
		return k
	}
	for i := 0; i < 60; i++ {
		m[mk(i)] = i * 3
	}
	s := 0
	for i := 0; i < 60; i++ {
		s += m[mk(i)]
	}
	delete(m, mk(7))
	_, ok := m[mk(7)]
	_, ok2 := m[mk(100)]
	r := 0
	for k, v := range m {
		r += int(k.A[128]) + v
	}
	m[mk(8)] = 1000
	println("K129", len(m), s, ok, ok2, r, m[mk(8)])
}

type K136 [17]uint64

func caseK136() {
	m := map[K136]int{}
	mk := func(i int) K136 {
		var k K136
		k[16] = uint64(i + 1)
		return k
	}
	for i := 0; i < 60; i++ {
		m[mk(i)] = i * 3
	}
	s := 0
	for i := 0; i < 60; i++ {
		s += m[mk(i)]
	}
	delete(m, mk(7))
	_, ok := m[mk(7)]
	_, ok2 := m[mk(100)]
	r := 0
	for k, v := range m {
		r += int(k[16]) + v
	}
	m[mk(8)] = 1000
	println("K136", len(m), s, ok, ok2, r, m[mk(8)])
}

type K140 struct{ A [16]uint64; S string; B uint32 }

func caseK140() {
	m := map[K140]int{}
	mk := func(i int) K140 {
		var k K140
		k.A[15] = uint64(i + 1)
		return k
	}
	for i := 0; i < 60; i++ {
		m[mk(i)] = i * 3
	}
	s := 0
	for i := 0; i < 60; i++ {
		s += m[mk(i)]
	}
	delete(m, mk(7))
	_, ok := m[mk(7)]
	_, ok2 := m[mk(100)]
	r := 0
	for k, v := range m {
		r += int(k.A[15]) + v
	}
	m[mk(8)] = 1000
	println("K140", len(m), s, ok, ok2, r, m[mk(8)])
}

type K256 [32]uint64

func caseK256() {
	m := map[K256]int{}
	mk := func(i int) K256 {
		var k K256
		k[31] = uint64(i + 1)
		return k
	}
	for i := 0; i < 60; i++ {
		m[mk(i)] = i * 3
	}
	s := 0
	for i := 0; i < 60; i++ {
		s += m[mk(i)]
	}
	delete(m, mk(7))
	_, ok := m[mk(7)]
	_, ok2 := m[mk(100)]
	r := 0
	for k, v := range m {
		r += int(k[31]) + v
	}
	m[mk(8)] = 1000
	println("K256", len(m), s, ok, ok2, r, m[mk(8)])
}

type K300 struct{ A [37]uint64; B uint32 }

func caseK300() {
	m := map[K300]int{}
	mk := func(i int) K300 {
		var k K300
		k.A[36] = uint64(i + 1)
		return k
	}
	for i := 0; i < 60; i++ {
		m[mk(i)] = i * 3
	}
	s := 0
	for i := 0; i < 60; i++ {
		s += m[mk(i)]
	}
	delete(m, mk(7))
	_, ok := m[mk(7)]
	_, ok2 := m[mk(100)]
	r := 0
	for k, v := range m {
		r += int(k.A[36]) + v
	}
	m[mk(8)] = 1000
	println("K300", len(m), s, ok, ok2, r, m[mk(8)])
}

// regression guard (end to end) for mapclear-keeps-stale-overflow-links
func caseCLEAR() {
	bad := 0
	for t := 0; t < 30; t++ {
		n1, n2, off := 105+t*7, 120+t*11, 100000*(t+1)
		m := make(map[int]int)
		for i := 0; i < n1; i++ {
			m[i] = i
		}
		clear(m)
		for i := 0; i < n2; i++ {
			m[off+i] = i
		}
		lost := 0
		for i := 0; i < n2; i++ {
			if v, ok := m[off+i]; !ok || v != i {
				lost++
			}
		}
		if lost != 0 || len(m) != n2 {
			bad++
		}
	}
	println("CLEAR", bad)
}

// ---- unhashable dynamic keys on nil / empty / emptied / cleared maps: lookup, comma-ok lookup and
// delete must panic as they do on non-empty maps (maptype flag HashMightPanic), for key types that
// reach an interface through arrays and struct fields
type ArrAny [2]any

func try(f func()) (r string) {
	defer func() {
		if recover() != nil {
			r = "P"
		}
	}()
	f()
	return "-"
}

func caseUNHA() {
	type K = [2]any
	bad, good := K{0: 1, 1: []int{1}}, K{0: 1, 1: 2}
	states := []func() map[K]int{
		func() map[K]int { return nil },
		func() map[K]int { return make(map[K]int) },
		func() map[K]int { m := map[K]int{}; m[good] = 1; delete(m, good); return m },
		func() map[K]int { m := map[K]int{}; m[good] = 1; clear(m); return m },
		func() map[K]int { m := map[K]int{}; m[good] = 1; return m },
	}
	out := ""
	for _, mk := range states {
		m := mk()
		out += try(func() { _ = m[bad] })
		out += try(func() { _, _ = m[bad] })
		out += try(func() { delete(m, bad) })
		out += try(func() { _ = m[good] })
		out += " "
	}
	println("UNHA", out)
}

func caseUNHD() {
	type K = ArrAny
	bad, good := K{0: []int{1}, 1: 1}, K{0: 1, 1: 2}
	states := []func() map[K]int{
		func() map[K]int { return nil },
		func() map[K]int { return make(map[K]int) },
		func() map[K]int { m := map[K]int{}; m[good] = 1; delete(m, good); return m },
		func() map[K]int { m := map[K]int{}; m[good] = 1; clear(m); return m },
		func() map[K]int { m := map[K]int{}; m[good] = 1; return m },
	}
	out := ""
	for _, mk := range states {
		m := mk()
		out += try(func() { _ = m[bad] })
		out += try(func() { _, _ = m[bad] })
		out += try(func() { delete(m, bad) })
		out += try(func() { _ = m[good] })
		out += " "
	}
	println("UNHD", out)
}

func caseUNHS() {
	type K = struct{ a int; f [1]any }
	bad, good := K{a: 1, f: [1]any{[]int{1}}}, K{a: 1, f: [1]any{2}}
	states := []func() map[K]int{
		func() map[K]int { return nil },
		func() map[K]int { return make(map[K]int) },
		func() map[K]int { m := map[K]int{}; m[good] = 1; delete(m, good); return m },
		func() map[K]int { m := map[K]int{}; m[good] = 1; clear(m); return m },
		func() map[K]int { m := map[K]int{}; m[good] = 1; return m },
	}
	out := ""
	for _, mk := range states {
		m := mk()
		out += try(func() { _ = m[bad] })
		out += try(func() { _, _ = m[bad] })
		out += try(func() { delete(m, bad) })
		out += try(func() { _ = m[good] })
		out += " "
	}
	println("UNHS", out)
}

func caseUNHN() {
	type K = [2][1]any
	bad, good := K{0: [1]any{1}, 1: [1]any{[]int{1}}}, K{0: [1]any{1}, 1: [1]any{2}}
	states := []func() map[K]int{
		func() map[K]int { return nil },
		func() map[K]int { return make(map[K]int) },
		func() map[K]int { m := map[K]int{}; m[good] = 1; delete(m, good); return m },
		func() map[K]int { m := map[K]int{}; m[good] = 1; clear(m); return m },
		func() map[K]int { m := map[K]int{}; m[good] = 1; return m },
	}
	out := ""
	for _, mk := range states {
		m := mk()
		out += try(func() { _ = m[bad] })
		out += try(func() { _, _ = m[bad] })
		out += try(func() { delete(m, bad) })
		out += try(func() { _ = m[good] })
		out += " "
	}
	println("UNHN", out)
}

func caseUNHV() {
	type K = [1]struct{ v any }
	bad, good := K{0: struct{ v any }{[]int{1}}}, K{0: struct{ v any }{2}}
	states := []func() map[K]int{
		func() map[K]int { return nil },
		func() map[K]int { return make(map[K]int) },
		func() map[K]int { m := map[K]int{}; m[good] = 1; delete(m, good); return m },
		func() map[K]int { m := map[K]int{}; m[good] = 1; clear(m); return m },
		func() map[K]int { m := map[K]int{}; m[good] = 1; return m },
	}
	out := ""
	for _, mk := range states {
		m := mk()
		out += try(func() { _ = m[bad] })
		out += try(func() { _, _ = m[bad] })
		out += try(func() { delete(m, bad) })
		out += try(func() { _ = m[good] })
		out += " "
	}
	println("UNHV", out)
}

func caseUNHI() {
	type K = any
	bad, good := K([]int{1}), K(2)
	states := []func() map[K]int{
		func() map[K]int { return nil },
		func() map[K]int { return make(map[K]int) },
		func() map[K]int { m := map[K]int{}; m[good] = 1; delete(m, good); return m },
		func() map[K]int { m := map[K]int{}; m[good] = 1; clear(m); return m },
		func() map[K]int { m := map[K]int{}; m[good] = 1; return m },
	}
	out := ""
	for _, mk := range states {
		m := mk()
		out += try(func() { _ = m[bad] })
		out += try(func() { _, _ = m[bad] })
		out += try(func() { delete(m, bad) })
		out += try(func() { _ = m[good] })
		out += " "
	}
	println("UNHI", out)
}

// a range loop in which the map is cleared and refilled after the j-th iteration, for every j:
// entries inserted inside the loop may or may not be produced, but never twice
func caseDUPCLEAR() {
	dupLoops, loops := 0, 0
	for trial := 0; trial < 30; trial++ {
		n := 60 + trial%40
		for j := 0; j < n; j++ {
			m := make(map[int]int)
			for i := 0; i < n; i++ {
				m[i*7+trial] = i
			}
			seen := map[int]int{}
			step := 0
			dup := false
			for k := range m {
				if k >= 1000000 {
					seen[k]++
					if seen[k] > 1 {
						dup = true
					}
				}
				if step == j {
					clear(m)
					for i := 0; i < 40; i++ {
						m[1000000+i*13+trial] = i
					}
				}
				step++
			}
			loops++
			if dup {
				dupLoops++
			}
		}
	}
	println("DUPCLEAR", loops, dupLoops > 0)
}

func main() {
	name := ""
	if a := argv(); len(a) > 1 {
		name = a[1]
	}
	switch name {
	case "V128":
		caseV128()
	case "V129":
		caseV129()
	case "V136":
		caseV136()
	case "V200":
		caseV200()
	case "V256":
		caseV256()
	case "V264":
		caseV264()
	case "V300":
		caseV300()
	case "K128":
		caseK128()
	case "K129":
		caseK129()
	case "K136":
		caseK136()
	case "K140":
		caseK140()
	case "K256":
		caseK256()
	case "K300":
		caseK300()
	case "CLEAR":
		caseCLEAR()
	case "UNHA":
		caseUNHA()
	case "UNHD":
		caseUNHD()
	case "UNHS":
		caseUNHS()
	case "UNHN":
		caseUNHN()
	case "UNHV":
		caseUNHV()
	case "UNHI":
		caseUNHI()
	case "DUPCLEAR":
		caseDUPCLEAR()
	default:
		println("unknown case", name)
	}
}
