package main

import "os"

func argv() []string { return os.Args }
