"""C06 - maps behave as finite maps under every operation history and key type."""
import json, os, sys, collections
from concurrent.futures import ThreadPoolExecutor
import vlib

HERE = os.path.dirname(os.path.abspath(__file__))
H = os.path.join(HERE, "harness")
sys.path.insert(0, HERE)
import modbuild  # noqa: E402

OPN = {0: "OSet", 1: "OGet", 2: "OGet1", 3: "ODel", 4: "OClear", 5: "OLen", 6: "OIterNew", 7: "OIterNext", 8: "ODrain"}
NINT = 7  # number of internal-state numbers appended to every observation


def coq_bool(b):
    return "true" if b else "false"


def nl(xs):
    return "[" + ";".join(str(x) for x in xs) + "]%N"


def kt(k):
    """keys are 64-bit numbers; big decimal literals are slow to parse in Coq, so a key is
    written as (K top flags uniq low) and assembled inside vm_compute"""
    if k < 65536:
        return str(k)
    return "(K %d %d %d %d)" % (k >> 56, (k >> 54) & 3, (k >> 16) & ((1 << 38) - 1), k & 0xffff)


def res_term(o, x):
    c = o[0]
    x = list(x)
    if c == 7 and len(x) > 2:
        x[1] = kt(x[1])
    elif c == 8:
        n = len(x) - (NINT if len(x) >= NINT and (len(x) - NINT) % 2 == 0 else 1)
        for i in range(0, max(0, n), 2):
            x[i] = kt(x[i])
    if len(x) > 150:
        return "(" + " ++ ".join("[" + ";".join(str(y) for y in x[i:i + 100]) + "]" for i in range(0, len(x), 100)) + ")%N"
    return "[" + ";".join(str(y) for y in x) + "]%N"


def op_term(o):
    c, a, b = o
    if c == 0:
        return "OSet %s %d" % (kt(a), b)
    if c in (1, 2, 3):
        return "%s %s" % (OPN[c], kt(a))
    if c in (6, 7):
        return "%s %d" % (OPN[c], a)
    return OPN[c]


def input_term(r):
    return hist_term(r, None)


def flat_term(r):
    """compact encoding decoded by GrowRun.decode_ops: key table + flat list of small numbers"""
    def chunked(items):
        if not items:
            return "[]"
        return "(" + " ++ ".join("[" + ";".join(items[i:i + 120]) + "]" for i in range(0, len(items), 120)) + ")"
    cfg = "mkC %s %d %s %s %d true %s %s" % (coq_bool(r["nil"]), r["hint"], coq_bool(r["refl"]), coq_bool(r["upd"]), r["seed"],
                                             coq_bool(r.get("ptr", False)), coq_bool(CLEAR_FRESH[0]))
    idx, kf, of = {}, [], []
    for c, a, b in r["ops"]:
        if c in (0, 1, 2, 3):
            if a not in idx:
                idx[a] = len(idx)
                kf += [str(a >> 56), str((a >> 54) & 3), str((a >> 16) & ((1 << 38) - 1)), str(a & 0xffff)]
            of.append(str(c))
            of.append(str(idx[a]))
            if c == 0:
                of.append(str(b))
        elif c in (6, 7):
            of += [str(c), str(a)]
        else:
            of.append(str(c))
    return "(%s, %s, %s, %s)" % (cfg, chunked(kf), chunked(of), coq_bool(not r["nil"]))


def hist_term(r, res):
    # c_memclr = true: the model of the code that exists (memclr* clear memory)
    cfg = "mkC %s %d %s %s %d true %s %s" % (coq_bool(r["nil"]), r["hint"], coq_bool(r["refl"]), coq_bool(r["upd"]), r["seed"],
                                             coq_bool(r.get("ptr", False)), coq_bool(CLEAR_FRESH[0]))
    # long [a;b;...] literals parse super-linearly in Coq: chunks of 100 joined by ++
    def chunked(items):
        if not items:
            return "[]"
        return "(" + " ++ ".join("[" + "; ".join(items[i:i + 100]) + "]" for i in range(0, len(items), 100)) + ")"
    ops = chunked([op_term(o) for o in r["ops"]])
    chk = not r["nil"]
    if res is None:
        return "(%s, %s, %s)" % (cfg, ops, coq_bool(chk))
    return "((%s, %s, %s), %s)" % (cfg, ops, coq_bool(chk), chunked([res_term(o, x) for o, x in zip(r["ops"], res)]))


HM = (1 << 61) - 1
# behaviour of the working tree's mapclear, measured by the harness probe (see ctl_test.go probeClearFresh):
# True = a fresh bucket array is taken while a range loop may be running (fixes/apply/03), False = always reused
CLEAR_FRESH = [False]


def trace_hash(rows):
    """same function as GrowRun.trace_hash"""
    h = 1
    for row in rows:
        a = (h * 1000003 + 7) % HM
        for x in row:
            a = (a * 1000003 + x + 1) % HM
        h = a
    return h


def observable(r):
    """API-level projection of a trace: per-op results and len; a quiescent range loop as a
    sorted multiset; iterator steps under mutation and internal state dropped."""
    out = []
    for o, x in zip(r["ops"], r["res"]):
        obs = x[:-NINT]
        if o[0] == 7:
            obs = []
        elif o[0] == 8:
            pairs = sorted(zip(obs[0::2], obs[1::2]))
            obs = [y for p in pairs for y in p]
        out.append(obs + [x[-2]])     # count is API-level (len)
    return out


E2E = os.path.join(HERE, "e2e")


def e2e_stage(ck):
    """end to end: llgo built from the working tree vs go on maps with big keys / values (indirect
    storage, 129..300 bytes) and on clear-then-refill; one process per case"""
    import shutil
    import e2e
    import time
    t0 = time.time()
    res = {"cases": 0, "agree": 0}
    L = e2e.LLGo(ck)
    if not L.ok:
        ck.correspondence_broken("e2e:llgo-build", L.buildlog[-1500:])
        return res
    d = os.path.join(ck.work, "e2eprog")
    os.makedirs(d, exist_ok=True)
    for f in ("main.go", "args.go"):
        shutil.copy(os.path.join(E2E, f), os.path.join(d, f))
    e2e.write_module(d, {}, "verifprog")
    lb, gb = os.path.join(ck.work, "e2e.llgo.bin"), os.path.join(ck.work, "e2e.go.bin")
    rc, out = L.build(d, lb)
    rc2, out2 = e2e.go_build(d, gb)
    if rc != 0 or rc2 != 0:
        ck.correspondence_broken("e2e:program-build", (out if rc else out2)[-1500:])
        return res
    for case in open(os.path.join(E2E, "cases.txt")).read().split():
        g = e2e.run_plain(gb, [case], timeout=60)
        l = L.run_bin(lb, [case], timeout=60)
        res["cases"] += 1
        if (l[0], l[2].strip()) == (g[0], g[2].strip()) and g[0] == 0:
            res["agree"] += 1
            continue
        n = int(case[1:]) if case[1:].isdigit() else 0
        if case == "CLEAR":
            key = "mapclear-keeps-stale-overflow-links"
        elif case == "DUPCLEAR":
            key = "iter-duplicate-after-clear-in-loop"
        elif case.startswith("UNH"):
            # lookup / comma-ok / delete with an unhashable dynamic key must panic on nil, empty,
            # emptied and cleared maps too (maptype flag HashMightPanic, set by ssa/abi hashMightPanic)
            key = "unhashable-key-no-panic-on-empty-map"
        elif n > 128:
            # the descriptor's KeySize / ValueSize must be the pointer size for indirectly stored keys / elems
            key = "map-slot-size-of-indirect-key-or-elem"
        else:
            key = "e2e-map-program-differs"
        ck.violation(key, "map program case %s: llgo exit %s output %r, go exit %s output %r" % (case, l[0], l[2][-200:], g[0], g[2][-200:]),
                     {"case": case, "program": "props/C06/e2e/main.go", "llgo": list(l), "go": list(g)})
    res["wall_s"] = round(time.time() - t0, 1)
    return res


ABI_H = os.path.join(HERE, "abi_harness", "abi_flags_test.go")
BK = {"bool": "BBool", "int": "BInt", "float": "BFloat", "complex": "BComplex", "string": "BString", "unsafeptr": "BUnsafePtr"}


def kty_term(t):
    k = t["k"]
    if k == "basic":
        return "(KBasic %s)" % BK[t["b"]]
    if k == "ptr":
        return "KPtr"
    if k == "chan":
        return "KChan"
    if k == "iface":
        return "KIface"
    if k == "arr":
        return "(KArr %d %s)" % (t.get("n", 0), kty_term(t["e"]))
    if k == "named":
        return "(KNamed %s)" % kty_term(t["e"])
    return "(KStruct [%s])" % "; ".join(kty_term(f) for f in t.get("fs") or [])


def flags_stage(ck):
    """ssa/abi hashMightPanic / IsReflexive / needkeyupdate / MapTypeFlags on generated key types
    (go test -overlay in /repo/ssa/abi) against the Coq model C06/Flags.v"""
    out = os.path.join(ck.work, "abi_flags.jsonl")
    n = {"quick": 600, "thorough": 20000}[ck.tier]
    rc, log = ck.go_test_overlay("ssa/abi", {"zz_verif_test.go": ABI_H}, env={"VERIF_OUT": out, "VERIF_N": str(n)})
    res = {"cases": 0, "classes": {}}
    if rc != 0 or not os.path.exists(out):
        ck.correspondence_broken("harness:ssa/abi", log[-2000:])
        return res
    recs = []
    for line in open(out):
        r = json.loads(line)
        if r["kind"] == "viol":
            ck.violation(r["key"], r["what"], r)
        else:
            recs.append(r)
    cl = collections.Counter(r["class"] for r in recs)
    res = {"cases": len(recs), "classes": dict(cl), "distinct_types": len(set(r["str"] for r in recs))}
    hdr = "From LLGoV Require Import C06.Flags.\nLocal Open Scope N_scope.\n"
    terms = ["(%s, %d)" % (kty_term(r["ty"]), r["flags"]) for r in recs]
    bad = ck.coq_mismatches(hdr, terms, "key_flags", "N.eqb", "c06_flags", shard=max(1, (len(terms) + 3) // 4))
    if bad:
        first = recs[bad[0]]
        ck.correspondence_broken("C06.Flags/key_flags", {"n_mismatch": len(bad), "type": first["str"], "tree": first["ty"],
                                                        "flags_and_28": first["flags"], "hmp": first["hmp"], "refl": first["refl"], "upd": first["upd"]})
    return res


def run(ck):
    ck.trusted = ["Coq 8.16.1 kernel (coqc, vm_compute)",
                  "Go 1.24 compiler executing llgo's map.go/alg.go/hash64.go/z_map.go/type.go copied verbatim (package clause rewritten)",
                  "stand-ins props/C06/harness/stub.go: AllocZ, Typedmemmove, fastrand (deterministic), fatal/throw (recording), atomicOr8",
                  "hand-built abi.MapType descriptors in the harness (key/elem sizes, hasher, equal, flags)",
                  "hand-written model coq/theories/C06/Model.v tied by correspondence; native Go maps as oracle"]
    ck.assumptions = ["single goroutine (hashWriting checks not modelled)",
                      "64-bit target; bucket layout produced by ssa/abi is not exercised (descriptors are built by hand)",
                      "Simple.v theorems are about the bucket model without incremental evacuation (see level_note)"]
    ck.coq_build("C06")
    ck.coq_props("LLGoV.C06.Props", "theories/C06/Props.v")

    e2e_pool = ThreadPoolExecutor(2)
    e2e_future = e2e_pool.submit(e2e_stage, ck)
    flags_future = e2e_pool.submit(flags_stage, ck)

    mod, err = modbuild.build(ck, H)
    if err:
        ck.correspondence_broken("scratch-module", err)
        return ck.finish()

    n, nbig, ntyped = {"quick": (140, 2, 40), "thorough": (2500, 40, 400)}[ck.tier]
    nheavy = {"quick": 3, "thorough": 60}[ck.tier]
    jobs = [("random", os.path.join(ck.work, "ctl.jsonl"), {"VERIF_N": str(n), "VERIF_NBIG": str(nbig), "VERIF_NHEAVY": str(nheavy)}),
            ("typed", os.path.join(ck.work, "typed.jsonl"), {"VERIF_N": str(ntyped)}),
            ("witness", os.path.join(ck.work, "witness.jsonl"), {}),
            ("scenarios", os.path.join(ck.work, "scenarios.jsonl"), {})]
    # compile once, then run the three modes in parallel (the witness may hang: short timeout)
    rc, log = vlib.sh(["go", "test", "-vet=off", "-c", "-o", os.path.join(mod, "rt.test"), "./rt"], cwd=mod, env=vlib.goenv(), timeout=600)
    if rc != 0:
        ck.correspondence_broken("harness-build", log[-2500:])
        return ck.finish()

    def one(j):
        mode, out, extra = j
        env = vlib.goenv({"VERIF_OUT": out, "VERIF_MODE": mode, "VERIF_SEED": str(ck.seed), "VERIF_TIER": ck.tier})
        env.update(extra)
        to = 60 if mode in ("witness", "scenarios") else (150 if ck.tier == "quick" else 3000)
        rc, log = vlib.sh([os.path.join(mod, "rt.test"), "-test.run", "TestVerif", "-test.timeout", "%ds" % to],
                          cwd=os.path.join(mod, "rt"), env=env, timeout=to + 30)
        return mode, out, rc, log

    with ThreadPoolExecutor(4) as ex:
        results = list(ex.map(one, jobs))

    hists, typed, viols, oracle_only = [], [], [], []
    for mode, out, rc, log in results:
        if mode == "witness" and rc != 0:
            # the recorded defect can also show up as an endless loop in the real code
            ck.violation("mapclear-keeps-stale-overflow-links", "witness history does not terminate / crashes: " + log[-300:], {"mode": mode})
            continue
        if mode == "scenarios" and rc != 0:
            # a deterministic scenario crashed or hung the real code: what was recorded before is
            # still read (violations are written as they are found), and the crash itself is a failure
            ck.violation("scenario-crashes-map-runtime", "the deterministic scenarios (same-size growth, clear, refill) crash or hang the "
                         "real map code: " + log[-400:], {"mode": mode, "log": log[-2500:]})
        elif rc != 0 or not os.path.exists(out):
            ck.correspondence_broken("harness:" + mode, log[-2500:])
            continue
        if not os.path.exists(out):
            continue
        for line in open(out):
            try:
                r = json.loads(line)
            except ValueError:
                continue
            if r["kind"] == "probe":
                CLEAR_FRESH[0] = bool(r.get("clear_fresh"))
                continue
            if r["kind"] == "hist" and r.get("nocoq"):
                oracle_only.append(r)
            elif r["kind"] == "hist":
                hists.append(r)
            elif r["kind"] == "typed":
                typed.append(r)
            elif r["kind"] == "viol":
                viols.append(r)

    for v in viols:
        ck.violation(v["key"], v.get("what", ""), v)

    # ---- model vs implementation (exact traces, internal state included) ----
    hdr = "From LLGoV Require Import C06.Model C06.Simple C06.SimpleRun C06.Grow C06.GrowRun.\nLocal Open Scope N_scope.\n"
    # balance the 16 parallel coqc shards: longest histories first, each into the lightest shard
    # that still has room (coq_mismatches cuts the list into consecutive runs of shard_n cases)
    order = sorted(range(len(hists)), key=lambda i: -len(hists[i]["ops"]))
    # 16 coqc run at a time; a shard should stay below ~9000 operations (a few minutes even on a busy
    # machine, vlib kills a shard after 30 min), so large tiers use several rounds of 16 shards
    total_ops = sum(len(h["ops"]) for h in hists)
    want = 16 * max(1, -(-total_ops // (16 * 9000)))
    shard_n = max(1, -(-len(order) // want))
    nbins = max(1, (len(order) + shard_n - 1) // shard_n)
    caps = [shard_n] * (nbins - 1) + [len(order) - shard_n * (nbins - 1)]
    bins, load = [[] for _ in range(nbins)], [0] * nbins
    for i in order:
        b = min((j for j in range(nbins) if len(bins[j]) < caps[j]), key=lambda j: load[j])
        bins[b].append(i)
        load[b] += len(hists[i]["ops"]) + 30
    inter = [i for b in bins for i in b]
    hs = [hists[i] for i in inter]
    terms = ["((%s, (%d, %d)), @nil N)" % (flat_term(r), trace_hash(r["res"]), trace_hash(observable(r))) for r in hs]
    # one pass: heap-level model (exact trace) and layer-1 model (API-level projection)
    import time
    t_coq = time.time()
    bad = ck.coq_mismatches(hdr, terms, "check_flat", "codes_eqb", "c06_all", shard=shard_n)
    ck.log("model evaluation of %d histories: %.1fs (started %.1fs into the run)" % (len(hs), time.time() - t_coq, t_coq - ck.t0))
    fidelity_bad = 0
    if bad:
        sub = [hs[i] for i in bad]
        sh2 = max(1, (len(sub) + 15) // 16)
        t_full = [hist_term(r, r["res"]) for r in sub]
        t_obs = [hist_term(r, observable(r)) for r in sub]
        bad_full = ck.coq_mismatches(hdr, t_full, "run_history3", "trace_eqb", "c06_full", shard=sh2)
        bad_obs = ck.coq_mismatches(hdr, t_obs, "run_history_obs3", "trace_eqb", "c06_obs", shard=sh2)
        t_simple = [hist_term(r, observable(r)) for r in sub if not r["nil"]]
        sub_s = [r for r in sub if not r["nil"]]
        bad_simple = ck.coq_mismatches(hdr, t_simple, "simple_only", "trace_eqb", "c06_simple", shard=sh2) if t_simple else []
        bad_grow = ck.coq_mismatches(hdr, t_simple, "grow_only", "trace_eqb", "c06_grow", shard=sh2) if t_simple else []
        fidelity_bad = len(bad_full)
        ck.log("model/implementation: %d histories differ in internal state or iteration order, %d in API-level results; "
               "layer-1 model differs on %d, layer-2 model on %d" % (len(bad_full), len(bad_obs), len(bad_simple), len(bad_grow)))
        # deterministic scenarios: B, noverflow, flags (sameSizeGrow ...), nevacuate must agree too
        scen = [i for i in bad_full if sub[i]["class"].startswith("scenario")]
        if scen:
            first = sub[scen[0]]
            ck.violation("scenario-internal-state-differs-from-model",
                         "history %s: the real map's internal state (B, noverflow, flags, nevacuate, growing, count) or iteration order "
                         "differs from Model.v in %d deterministic scenario(s)" % (first["class"], len(scen)),
                         {"class": first["class"], "config": {k: first.get(k) for k in ("nil", "hint", "refl", "upd", "seed", "ptr")},
                          "ops": first["ops"], "res": first["res"]})
        for name, idxs, pool in (("C06.Model/run_history", bad_obs, sub), ("C06.Simple/srun", bad_simple, sub_s),
                                 ("C06.Grow/grun", bad_grow, sub_s)):
            if idxs:
                first = pool[idxs[0]]
                ck.correspondence_broken(name, {"n_mismatch": len(idxs), "class": first["class"],
                                                "config": {k: first.get(k) for k in ("nil", "hint", "refl", "upd", "seed", "ptr")},
                                                "ops": first["ops"][:400], "res": first["res"][:400]})
    # growth reached by the layer-2 replays (its own triggers): a sample of short histories
    grow_cov = {}
    try:
        import re as _re
        samp = [r for r in hs if not r["nil"] and len(r["ops"]) <= 400][:40]
        body = hdr + "Definition xs := [\n" + ";\n".join(flat_term(r) for r in samp) + "\n]%N.\n" + \
            "Definition S := Eval vm_compute in map (fun x : config * list N * list N * bool => let '(c, kf, of, chk) := x in " \
            "grow_stats_of (c, decode_ops (decode_keys kf 0 (PositiveMap.empty N)) of, chk)) xs.\nPrint S.\n"
        rc_s, out_s = ck.coq_run("From Coq Require Import FMapPositive.\n" + body, "c06_growstats", timeout=300)
        trip = _re.findall(r"\((\d+), (\d+), (\d+)\)", out_s)
        grow_cov = {"sampled_histories": len(samp), "with_growth": sum(1 for t in trip if int(t[1]) > 0),
                    "with_same_size_growth": sum(1 for t in trip if int(t[2]) > 0), "maxB": max([int(t[0]) for t in trip] or [0])}
    except Exception as ex:                     # noqa: BLE001
        grow_cov = {"error": repr(ex)}
    try:
        e2e_res = e2e_future.result(timeout=1500)
    except Exception as ex:                     # noqa: BLE001
        e2e_res = {"cases": 0, "agree": 0}
        ck.correspondence_broken("e2e:stage", repr(ex))
    # ---- coverage / evidence ----
    classes = collections.Counter()
    nops = 0
    cov = collections.Counter()
    for r in hists:
        classes[r["class"].split("-")[0] + ("-nan" if "-nan" in r["class"] else "")] += 1
        nops += len(r["ops"])
        for k, v in r["cov"].items():
            if k.startswith("max"):
                cov[k] = max(cov[k], v)
            else:
                cov[k] += 1 if v else 0
        if r["tainted"]:
            cov["clear_with_prealloc_overflow_in_use"] += 1
    for r in oracle_only:
        classes["oracle-only-" + r["class"]] += 1
        nops += r["nops"]
        cov["oracle_only_maxB"] = max(cov["oracle_only_maxB"], r["cov"].get("maxB", 0))
    for r in typed:
        classes["typed-" + r["cfg"]] += 1
        nops += r["ops"]
        cov["typed_unhashable_panics"] += r["panics"]
        cov["typed_nan_keys"] += r["nans"]
        cov["typed_maxB"] = max(cov["typed_maxB"], r["maxB"])
    ck.add_cov(evaluations=nops, nontrivial=len(hists) + len(typed) + len(oracle_only), classes=dict(classes), reached=dict(cov))
    try:
        flags_res = flags_future.result(timeout=900)
    except Exception as ex:                     # noqa: BLE001
        flags_res = {"cases": 0}
        ck.correspondence_broken("ssa/abi:stage", repr(ex))
    ck.cov["ssa_abi_key_flags"] = flags_res
    ck.add_cov(evaluations=flags_res.get("cases", 0), nontrivial=flags_res.get("distinct_types", 0))
    ck.cov["layer2_growth_in_replays"] = grow_cov
    ck.cov["e2e"] = e2e_res
    ck.add_cov(evaluations=e2e_res["cases"])
    ck.cov["fidelity"] = {"histories": len(hists), "exact_trace_agreement": len(hists) - fidelity_bad,
                          "note": "exact = per-op results, len, B, noverflow, flags, nevacuate, growing, iteration order under the fixed fastrand"}
    if hists:
        r = hists[len(hists) // 3]
        ck.cov["samples"] = [{"class": r["class"], "config": {k: r.get(k) for k in ("nil", "hint", "refl", "upd", "seed", "ptr")},
                              "ops": r["ops"][:12], "res": r["res"][:12]}]
    ck.cov["rule"] = ("operation histories (set/get/delete/clear/len/range/interleaved iterators) generated from 6 profiles x key-collision modes "
                      "(one bucket, split at bit j, few buckets, sequential, random) x tophash pools x NaN-like / variant keys x make hints, filling "
                      "across the growth thresholds 8,13,26,52,104,208,416 and forcing overflow chains and same-size growth; every history is run on "
                      "the real map.go code (scratch copy, controllable hasher), checked against a reference finite map, and replayed on the Coq model "
                      "(vm_compute, exact trace); string/float64/interface key maps run the real alg.go hash/equal functions against native Go maps; "
                      "end to end (llgo built from the working tree vs go): maps with 128..300-byte keys and values, clear-then-refill")
    return ck.finish()


def replay(ck):
    """bin/check C06 --replay <replay json>: re-run the recorded history on the real map code and
    on Model.v, print both traces side by side from the first difference / the violation"""
    rf = ck.replay_file
    r = rf.get("replay", rf)
    r = r.get("first", r) if isinstance(r, dict) else r
    if "ops" not in r:
        print("replay file has no operation history (source-level or end-to-end finding)")
        return 1
    mod, err = modbuild.build(ck, H)
    if err:
        print(err)
        return 1
    rp = os.path.join(ck.work, "replay_in.json")
    json.dump(r, open(rp, "w"))
    out = os.path.join(ck.work, "replay_out.jsonl")
    env = vlib.goenv({"VERIF_OUT": out, "VERIF_MODE": "replay", "VERIF_REPLAY": rp, "VERIF_SEED": str(ck.seed)})
    rc, log = vlib.sh(["go", "test", "-vet=off", "-count=1", "-run", "TestVerif", "./rt"], cwd=mod, env=env, timeout=600)
    recs = [json.loads(l) for l in open(out)] if os.path.exists(out) else []
    for x in recs:
        if x["kind"] == "probe":
            CLEAR_FRESH[0] = bool(x.get("clear_fresh"))
    viols = [x for x in recs if x["kind"] == "viol"]
    hist = [x for x in recs if x["kind"] == "hist"]
    for v in viols:
        print("VIOLATION on the real code: %s | %s (op %d)" % (v["key"], v["what"], v["at"]))
    if hist:
        h = hist[0]
        bad = ck.coq_mismatches("From LLGoV Require Import C06.Model C06.Simple C06.SimpleRun C06.Grow C06.GrowRun.\nLocal Open Scope N_scope.\n",
                                [hist_term(h, h["res"])], "run_history3", "trace_eqb", "c06_replay")
        print("Model.v exact trace %s" % ("differs" if bad else "agrees"))
        lo = max(0, (viols[0]["at"] if viols else len(h["ops"])) - 12)
        for i in range(lo, len(h["ops"])):
            print(i, h["ops"][i], h["res"][i])
    return 1 if viols or rc != 0 else 0
