package abi

// Injected by /verif (go test -overlay); not part of the repository.
// Runs hashMightPanic / IsReflexive / needkeyupdate / MapTypeFlags on generated comparable key
// types and records the results for the Coq model C06/Flags.v; checks on the spot that the
// HashMightPanic flag is set exactly when an interface type is reachable through array
// elements, struct fields and underlying types.

import (
	"encoding/json"
	"fmt"
	"go/token"
	"go/types"
	"os"
	"strconv"
	"testing"
)

type vkt struct {
	K  string `json:"k"`            // basic ptr chan iface arr struct named
	B  string `json:"b,omitempty"`  // bool int float complex string unsafeptr
	N  int64  `json:"n,omitempty"`  // array length
	E  *vkt   `json:"e,omitempty"`  // array elem / underlying of named
	Fs []*vkt `json:"fs,omitempty"` // struct fields
}

type vrng struct{ s uint64 }

func (r *vrng) next() uint64 {
	r.s += 0x9e3779b97f4a7c15
	z := r.s
	z = (z ^ (z >> 30)) * 0xbf58476d1ce4e5b9
	z = (z ^ (z >> 27)) * 0x94d049bb133111eb
	return z ^ (z >> 31)
}
func (r *vrng) n(k int) int { return int(r.next() % uint64(k)) }

var vpkg = types.NewPackage("example.com/p", "p")
var vnamed int

var vbasics = map[string][]types.BasicKind{
	"bool": {types.Bool}, "int": {types.Int, types.Int8, types.Uint32, types.Uintptr, types.Int64},
	"float": {types.Float32, types.Float64}, "complex": {types.Complex64, types.Complex128},
	"string": {types.String}, "unsafeptr": {types.UnsafePointer},
}

func (t *vkt) build(r *vrng) types.Type {
	switch t.K {
	case "basic":
		ks := vbasics[t.B]
		return types.Typ[ks[r.n(len(ks))]]
	case "ptr":
		return types.NewPointer(types.Typ[types.Int])
	case "chan":
		return types.NewChan(types.SendRecv, types.Typ[types.Int])
	case "iface":
		if r.n(2) == 0 {
			return types.NewInterfaceType(nil, nil).Complete()
		}
		sig := types.NewSignatureType(nil, nil, nil, nil, nil, false)
		m := types.NewFunc(token.NoPos, vpkg, "M", sig)
		return types.NewInterfaceType([]*types.Func{m}, nil).Complete()
	case "arr":
		return types.NewArray(t.E.build(r), t.N)
	case "struct":
		var fs []*types.Var
		for i, f := range t.Fs {
			fs = append(fs, types.NewField(token.NoPos, vpkg, "F"+strconv.Itoa(i), f.build(r), false))
		}
		return types.NewStruct(fs, nil)
	case "named":
		vnamed++
		tn := types.NewTypeName(token.NoPos, vpkg, "T"+strconv.Itoa(vnamed), nil)
		return types.NewNamed(tn, t.E.build(r).Underlying(), nil)
	}
	panic("kind")
}

// path to the first reachable interface ("" if none): a = through an array, s = struct field, n = defined type
func (t *vkt) ifacePath() (string, bool) {
	switch t.K {
	case "iface":
		return "", true
	case "arr":
		if p, ok := t.E.ifacePath(); ok {
			return "a" + p, true
		}
	case "named":
		if p, ok := t.E.ifacePath(); ok {
			return "n" + p, true
		}
	case "struct":
		for _, f := range t.Fs {
			if p, ok := f.ifacePath(); ok {
				return "s" + p, true
			}
		}
	}
	return "", false
}

var vleaves = []*vkt{{K: "basic", B: "bool"}, {K: "basic", B: "int"}, {K: "basic", B: "float"}, {K: "basic", B: "complex"},
	{K: "basic", B: "string"}, {K: "basic", B: "unsafeptr"}, {K: "ptr"}, {K: "chan"}, {K: "iface"}}

func vgen(r *vrng, depth int) *vkt {
	if depth == 0 || r.n(3) == 0 {
		if r.n(3) == 0 {
			return vleaves[8]
		}
		return vleaves[r.n(len(vleaves))]
	}
	switch r.n(4) {
	case 0, 1:
		return &vkt{K: "arr", N: int64(r.n(4)), E: vgen(r, depth-1)}
	case 2:
		n := r.n(4)
		t := &vkt{K: "struct"}
		for i := 0; i < n; i++ {
			t.Fs = append(t.Fs, vgen(r, depth-1))
		}
		return t
	default:
		return &vkt{K: "named", E: vgen(r, depth-1)}
	}
}

// every type of depth <= 2 over the leaves (arrays of length 2, structs of one or two fields, defined types)
func vsmall() []*vkt {
	l0 := vleaves
	var l1 []*vkt
	for _, x := range l0 {
		l1 = append(l1, &vkt{K: "arr", N: 2, E: x}, &vkt{K: "arr", N: 0, E: x}, &vkt{K: "named", E: x}, &vkt{K: "struct", Fs: []*vkt{x}},
			&vkt{K: "struct", Fs: []*vkt{vleaves[1], x}})
	}
	var l2 []*vkt
	for _, x := range l1 {
		l2 = append(l2, &vkt{K: "arr", N: 1, E: x}, &vkt{K: "named", E: x}, &vkt{K: "struct", Fs: []*vkt{x}},
			&vkt{K: "struct", Fs: []*vkt{x, vleaves[4]}})
	}
	out := append([]*vkt{}, l0...)
	out = append(out, l1...)
	return append(out, l2...)
}

func TestVerif(t *testing.T) {
	seed, _ := strconv.ParseUint(os.Getenv("VERIF_SEED"), 10, 64)
	n, _ := strconv.Atoi(os.Getenv("VERIF_N"))
	f, err := os.Create(os.Getenv("VERIF_OUT"))
	if err != nil {
		t.Fatal(err)
	}
	defer f.Close()
	enc := json.NewEncoder(f)
	r := &vrng{s: seed*1000003 + 11}
	sizes := types.SizesFor("gc", "amd64")
	cases := vsmall()
	for i := 0; i < n; i++ {
		cases = append(cases, vgen(r, 1+r.n(4)))
	}
	for _, c := range cases {
		ty := c.build(r)
		hmp, refl, upd := hashMightPanic(ty), IsReflexive(ty), needkeyupdate(ty)
		flags := MapTypeFlags(types.NewMap(ty, types.Typ[types.Int]), sizes)
		path, reach := c.ifacePath()
		class := "no-interface"
		if reach {
			class = "interface-via-" + path
			if len(path) > 3 {
				class = "interface-via-" + path[:3] + "+"
			}
		}
		enc.Encode(map[string]any{"kind": "flags", "ty": c, "str": ty.String(), "flags": flags & 28, "hmp": hmp, "refl": refl, "upd": upd, "class": class})
		if hmp != reach || (flags&16 != 0) != reach {
			key := "hashmightpanic-flag-wrong"
			if reach {
				through := "struct-field"
				for _, ch := range path {
					if ch == 'a' {
						through = "array"
					}
				}
				if path == "" || path == "n" {
					through = "interface"
				}
				key = "hashmightpanic-unset-for-interface-reached-through-" + through
			}
			enc.Encode(map[string]any{"kind": "viol", "key": key, "ty": c, "str": ty.String(),
				"what": fmt.Sprintf("key type %s: hashMightPanic = %v, MapTypeFlags&16 = %d, but an interface is reachable: %v (path %q)", ty, hmp, flags&16, reach, path)})
		}
	}
}
