package rt

// Injected by /verif into a scratch copy of llgo's runtime map sources; not part
// of the repository.  Drives the real mapassign/mapaccess/mapdelete/mapclear/
// iterator code through generated operation histories with a hand-built maptype
// whose hasher is controllable (keys carry their own hash), compares every
// result with a reference finite map (property oracle) and records the trace for
// the Coq model (C06/Model.v).

import (
	"encoding/json"
	"fmt"
	"os"
	"sort"
	"strconv"
	"strings"
	"testing"
	"unsafe"

	"github.com/goplus/llgo/runtime/abi"
)

type vrng struct{ s uint64 }

func (r *vrng) next() uint64 {
	r.s += 0x9e3779b97f4a7c15
	z := r.s
	z = (z ^ (z >> 30)) * 0xbf58476d1ce4e5b9
	z = (z ^ (z >> 27)) * 0x94d049bb133111eb
	return z ^ (z >> 31)
}
func (r *vrng) n(k int) int {
	if k <= 0 {
		return 0
	}
	return int(r.next() % uint64(k))
}

const (
	vNanBit = uint64(1) << 55
	vVarBit = uint64(1) << 54
	vGold   = uint64(0x9E3779B97F4A7C15)
	vLow56  = uint64(1)<<56 - 1
)

func ctlHasher(p unsafe.Pointer, seed uintptr) uintptr {
	k := *(*uint64)(p)
	if k&vNanBit != 0 {
		return c1 * (c0 ^ seed ^ uintptr(fastrand()))
	}
	return uintptr((k &^ vVarBit) ^ ((uint64(seed) * vGold) & vLow56))
}

func ctlEqual(p, q unsafe.Pointer) bool {
	a, b := *(*uint64)(p), *(*uint64)(q)
	return a&vNanBit == 0 && a&^vVarBit == b&^vVarBit
}

func mkCtlType(refl, upd, ptr bool) *maptype {
	u64 := &abi.Type{Size_: 8, Align_: 8, FieldAlign_: 8, Kind_: uint8(abi.Uint64), Equal: ctlEqual, Str_: "ctlkey"}
	el := &abi.Type{Size_: 8, Align_: 8, FieldAlign_: 8, Kind_: uint8(abi.Uint64), Equal: memequal64, Str_: "uint64",
		TFlag: abi.TFlagRegularMemory}
	bsz := uintptr(8 + 8*8 + 8*8 + 8)
	bt := &abi.Type{Size_: bsz, Align_: 8, Kind_: uint8(abi.Struct), Str_: "bucket"}
	if ptr { // t.Bucket.PtrBytes != 0: evacuate wipes old buckets nobody iterates, overflow lists unused
		bt.PtrBytes = bsz
	}
	mt := &abi.MapType{Key: u64, Elem: el, Bucket: bt, Hasher: ctlHasher, KeySize: 8, ValueSize: 8, BucketSize: uint16(bsz)}
	mt.Type.Kind_ = uint8(abi.Map)
	mt.Type.Size_ = 8
	if refl {
		mt.Flags |= 4
	}
	if upd {
		mt.Flags |= 8
	}
	return mt
}

const (
	opSet = iota
	opGet
	opGet1
	opDel
	opClear
	opLen
	opIterNew
	opIterNext
	opDrain
)

const vPANIC = 777

type histRec struct {
	Kind    string         `json:"kind"`
	Class   string         `json:"class"`
	Nil     bool           `json:"nil"`
	Hint    int            `json:"hint"`
	Refl    bool           `json:"refl"`
	Upd     bool           `json:"upd"`
	Ptr     bool           `json:"ptr"`
	Seed    uint64         `json:"seed"`
	Ops     [][]uint64     `json:"ops"`
	Res     [][]uint64     `json:"res"`
	Tainted bool           `json:"tainted"`
	NoCoq   bool           `json:"nocoq"`
	NOps    int            `json:"nops"`
	Cov     map[string]int `json:"cov"`
}

type violRec struct {
	Kind  string     `json:"kind"`
	Key   string     `json:"key"`
	What  string     `json:"what"`
	Class string     `json:"class"`
	Nil   bool       `json:"nil"`
	Hint  int        `json:"hint"`
	Refl  bool       `json:"refl"`
	Upd   bool       `json:"upd"`
	Ptr   bool       `json:"ptr"`
	Seed  uint64     `json:"seed"`
	Ops   [][]uint64 `json:"ops"`
	At    int        `json:"at"`
}

type refEnt struct {
	key, val uint64
	id       int
	alive    bool
}

type iterTrack struct {
	initial []*refEnt
	seen    map[int]bool
	done    bool
	cleared bool // the map was cleared while this iterator was running
}

type ctlRun struct {
	t      *maptype
	h      *hmap
	its    [3]*llgoMapIter
	trk    [3]*iterTrack
	ref    map[uint64]*refEnt
	nans   []*refEnt
	nextID int
	rec    *histRec
	enc    *json.Encoder
	nviol  int
	stop   bool // fatal / panic: the history ends
	noViol bool // witness of a recorded finding: classified by the caller
	viols  []string
}

func newCtlRun(enc *json.Encoder, class string, isNil bool, hint int, refl, upd bool, seed uint64) *ctlRun {
	return newCtlRunP(enc, class, isNil, hint, refl, upd, false, seed)
}

func newCtlRunP(enc *json.Encoder, class string, isNil bool, hint int, refl, upd, ptr bool, seed uint64) *ctlRun {
	vresetArena()
	vrnd = seed
	vfatal = vfatal[:0]
	c := &ctlRun{t: mkCtlType(refl, upd, ptr), ref: map[uint64]*refEnt{}, enc: enc}
	c.rec = &histRec{Kind: "hist", Class: class, Nil: isNil, Hint: hint, Refl: refl, Upd: upd, Ptr: ptr, Seed: seed, Cov: map[string]int{}}
	if !isNil {
		c.h = MakeMap(c.t, hint)
	}
	return c
}

func (c *ctlRun) viol(key, what string) {
	c.nviol++
	c.viols = append(c.viols, key)
	if c.noViol || c.nviol > 3 {
		return
	}
	r := c.rec
	c.enc.Encode(violRec{Kind: "viol", Key: key, What: what, Class: r.Class, Nil: r.Nil, Hint: r.Hint, Refl: r.Refl,
		Upd: r.Upd, Ptr: r.Ptr, Seed: r.Seed, Ops: r.Ops, At: len(r.Ops) - 1})
}

func (c *ctlRun) internals() []uint64 {
	bad := uint64(0)
	if len(vfatal) > 0 {
		bad = 1
	}
	h := c.h
	if h == nil {
		return []uint64{0, 0, 0, 0, 0, 0, bad}
	}
	g := uint64(0)
	if h.oldbuckets != nil {
		g = 1
	}
	return []uint64{uint64(h.B), uint64(h.noverflow), uint64(h.flags), uint64(h.nevacuate), g, uint64(h.count), bad}
}

func (c *ctlRun) liveCount() int { return len(c.ref) + len(c.nans) }

func (c *ctlRun) lookupRef(k uint64) *refEnt {
	if k&vNanBit != 0 {
		return nil
	}
	return c.ref[k&^vVarBit]
}

// preallocated overflow buckets of the current bucket array already handed out?
func (c *ctlRun) preallocUsed() bool {
	h := c.h
	if h == nil || h.B < 4 || h.buckets == nil {
		return false
	}
	first := add(h.buckets, bucketShift(h.B)*uintptr(c.t.BucketSize))
	return h.extra == nil || unsafe.Pointer(h.extra.nextOverflow) != first
}

func (c *ctlRun) checkYield(s int, k, v uint64) {
	tr := c.trk[s]
	var e *refEnt
	if k&vNanBit != 0 {
		for _, x := range c.nans {
			if x.val == v && x.key == k {
				e = x
			}
		}
	} else {
		e = c.ref[k&^vVarBit]
		if e != nil && (e.key != k || e.val != v) {
			c.viol("iter-yields-stale-entry", fmt.Sprintf("iterator %d yielded (%#x,%d) but the map holds (%#x,%d)", s, k, v, e.key, e.val))
			return
		}
	}
	if e == nil && k&vNanBit != 0 && tr.cleared {
		// recorded finding: mapclear marks only h.buckets / h.oldbuckets; an iterator that still walks
		// an older bucket array returns its NaN-keyed entries directly (no re-lookup is possible)
		c.viol("iter-yields-nan-entry-after-clear", fmt.Sprintf("iterator %d yielded (%#x,%d): a NaN-keyed entry removed by clear() earlier in the loop", s, k, v))
		return
	}
	if e == nil {
		c.viol("iter-yields-absent-entry", fmt.Sprintf("iterator %d yielded (%#x,%d) which is not in the map", s, k, v))
		return
	}
	if tr.seen[e.id] && tr.cleared {
		// recorded finding (repaired by fixes/apply/03): mapclear reuses the bucket array under a running
		// range loop; the loop follows the sentinel overflow pointer of the last preallocated overflow
		// bucket (or sits in a preallocated bucket that is handed out again) and sees new entries twice
		c.viol("iter-duplicate-after-clear-in-loop", fmt.Sprintf("iterator %d yielded entry (%#x,%d), inserted after a clear() inside the loop, twice", s, k, v))
	} else if tr.seen[e.id] {
		c.viol("iter-duplicate", fmt.Sprintf("iterator %d yielded entry (%#x,%d) twice", s, k, v))
	}
	tr.seen[e.id] = true
}

func (c *ctlRun) checkExhausted(s int) {
	tr := c.trk[s]
	if tr == nil || tr.done {
		return
	}
	tr.done = true
	for _, e := range tr.initial {
		if e.alive && !tr.seen[e.id] {
			c.viol("iter-missed-entry", fmt.Sprintf("iterator %d ended without yielding (%#x,%d) which was present during the whole loop", s, e.key, e.val))
			return
		}
	}
}

func (c *ctlRun) snapshot() *iterTrack {
	tr := &iterTrack{seen: map[int]bool{}}
	for _, e := range c.ref {
		tr.initial = append(tr.initial, e)
	}
	tr.initial = append(tr.initial, c.nans...)
	return tr
}

// do executes one operation on the real map and on the reference
func (c *ctlRun) do(code int, a, b uint64) {
	if c.stop {
		return
	}
	c.rec.Ops = append(c.rec.Ops, []uint64{uint64(code), a, b})
	obs := []uint64{}
	switch code {
	case opSet:
		k, v := a, b
		panicked := ""
		func() {
			defer func() {
				if r := recover(); r != nil {
					panicked = fmt.Sprint(r)
				}
			}()
			p := MapAssign(c.t, c.h, unsafe.Pointer(&k))
			*(*uint64)(p) = v
		}()
		if c.h == nil {
			obs = append(obs, vPANIC)
			if panicked != "assignment to entry in nil map" {
				c.viol("nil-map-write-no-panic", "assignment to a nil map: panic value = "+strconv.Quote(panicked))
			}
			break
		}
		if panicked != "" {
			c.viol("map-assign-panics", "mapassign panicked: "+panicked)
			c.stop = true
			break
		}
		if k&vNanBit != 0 {
			c.nextID++
			c.nans = append(c.nans, &refEnt{key: k, val: v, id: c.nextID, alive: true})
		} else if e := c.ref[k&^vVarBit]; e != nil {
			e.val = v
			if c.rec.Upd {
				e.key = k
			}
		} else {
			c.nextID++
			c.ref[k&^vVarBit] = &refEnt{key: k, val: v, id: c.nextID, alive: true}
		}
	case opGet, opGet1:
		k := a
		var got uint64
		var ok bool
		if code == opGet {
			var p unsafe.Pointer
			p, ok = MapAccess2(c.t, c.h, unsafe.Pointer(&k))
			got = *(*uint64)(p)
			o := uint64(0)
			if ok {
				o = 1
			}
			obs = append(obs, o, got)
		} else {
			got = *(*uint64)(MapAccess1(c.t, c.h, unsafe.Pointer(&k)))
			obs = append(obs, got)
		}
		e := c.lookupRef(k)
		switch {
		case e == nil && (got != 0 || ok):
			c.viol("lookup-finds-absent-key", fmt.Sprintf("lookup of absent key %#x returned (%d,%v)", k, got, ok))
		case e != nil && (got != e.val || (code == opGet && !ok)):
			c.viol("lookup-loses-entry", fmt.Sprintf("lookup of key %#x returned (%d,%v), the map holds %d", k, got, ok, e.val))
		}
	case opDel:
		k := a
		MapDelete(c.t, c.h, unsafe.Pointer(&k))
		if e := c.lookupRef(k); e != nil {
			e.alive = false
			delete(c.ref, k&^vVarBit)
		}
	case opClear:
		if c.preallocUsed() && c.h.count > 0 {
			c.rec.Tainted = true
		}
		MapClear(c.t, c.h)
		for _, tr := range c.trk {
			if tr != nil && !tr.done {
				tr.cleared = true
			}
		}
		for _, e := range c.ref {
			e.alive = false
		}
		for _, e := range c.nans {
			e.alive = false
		}
		c.ref = map[uint64]*refEnt{}
		c.nans = nil
	case opLen:
		n := MapLen(c.h)
		obs = append(obs, uint64(n))
		if n != c.liveCount() {
			c.viol("len-mismatch", fmt.Sprintf("len = %d, live entries = %d", n, c.liveCount()))
		}
	case opIterNew:
		s := int(a)
		c.its[s] = NewMapIter(c.t, c.h)
		c.trk[s] = c.snapshot()
	case opIterNext:
		s := int(a)
		if c.its[s] == nil {
			obs = append(obs, 0, 0, 0)
			break
		}
		ok, kp, vp := MapIterNext(c.its[s])
		if ok {
			k, v := *(*uint64)(kp), *(*uint64)(vp)
			obs = append(obs, 1, k, v)
			c.checkYield(s, k, v)
		} else {
			obs = append(obs, 0, 0, 0)
			c.checkExhausted(s)
		}
	case opDrain:
		it := NewMapIter(c.t, c.h)
		type kv struct{ k, v uint64 }
		var got []kv
		for n := 0; n <= c.liveCount()+8; n++ {
			ok, kp, vp := MapIterNext(it)
			if !ok {
				break
			}
			k, v := *(*uint64)(kp), *(*uint64)(vp)
			got = append(got, kv{k, v})
			obs = append(obs, k, v)
		}
		var want []kv
		for _, e := range c.ref {
			want = append(want, kv{e.key, e.val})
		}
		for _, e := range c.nans {
			want = append(want, kv{e.key, e.val})
		}
		less := func(x []kv) func(i, j int) bool {
			return func(i, j int) bool {
				if x[i].k != x[j].k {
					return x[i].k < x[j].k
				}
				return x[i].v < x[j].v
			}
		}
		g2 := append([]kv(nil), got...)
		sort.Slice(g2, less(g2))
		sort.Slice(want, less(want))
		same := len(g2) == len(want)
		for i := 0; same && i < len(want); i++ {
			same = g2[i] == want[i]
		}
		if !same {
			dup := false
			for i := 1; i < len(g2); i++ {
				if g2[i] == g2[i-1] {
					dup = true
				}
			}
			key := "range-misses-or-invents-entry"
			if dup {
				key = "range-yields-entry-twice"
			} else if len(g2) < len(want) {
				key = "range-misses-entry"
			}
			c.viol(key, fmt.Sprintf("quiescent range loop yielded %d entries, the map holds %d", len(g2), len(want)))
		}
	}
	c.rec.Res = append(c.rec.Res, append(obs, c.internals()...))
	if c.h != nil {
		if int(c.h.B) > c.rec.Cov["maxB"] {
			c.rec.Cov["maxB"] = int(c.h.B)
		}
		if c.h.flags&sameSizeGrow != 0 {
			c.rec.Cov["sameSizeGrow"] = 1
		}
		if c.h.oldbuckets != nil {
			c.rec.Cov["growingSteps"]++
			for s := 0; s < 3; s++ {
				if c.trk[s] != nil && !c.trk[s].done {
					c.rec.Cov["iterDuringGrow"] = 1
				}
			}
		}
		if int(c.h.noverflow) > c.rec.Cov["maxNoverflow"] {
			c.rec.Cov["maxNoverflow"] = int(c.h.noverflow)
		}
	}
	if len(vfatal) > 0 {
		c.viol("runtime-throw-continues", "the map code called "+vfatal[0]+" (llgo prints and continues)")
		c.stop = true
	}
}

func (c *ctlRun) finish() {
	c.rec.NOps = len(c.rec.Ops)
	c.enc.Encode(c.rec)
}

// oracle-only histories: the trace is not written out (only its size and coverage)
func (c *ctlRun) finishSummary() {
	c.rec.NOps = len(c.rec.Ops)
	c.rec.Ops, c.rec.Res = nil, nil
	c.enc.Encode(c.rec)
}

// ---------- key construction ----------
func mkKey(top uint8, uniq uint64, low uint16, nan, variant bool) uint64 {
	k := uint64(top)<<56 | (uniq&(1<<38-1))<<16 | uint64(low)
	if nan {
		k |= vNanBit
	}
	if variant {
		k |= vVarBit
	}
	return k
}

var topPool = []uint8{0, 1, 4, 5, 6, 9, 10, 255}

type keyGen struct {
	r       *vrng
	lowMode int
	topMode int
	lowBase uint16
	splitJ  uint
	nanPct  int
	varPct  int
	n       uint64
}

func (g *keyGen) fresh() uint64 {
	g.n++
	var low uint16
	switch g.lowMode {
	case 0:
		low = uint16(g.n)
	case 1:
		low = g.lowBase
	case 2:
		low = g.lowBase&^(1<<g.splitJ) | uint16(g.r.n(2))<<g.splitJ
	case 3:
		low = uint16(g.r.n(4))
	default:
		low = uint16(g.r.next())
	}
	var top uint8
	switch g.topMode {
	case 0:
		top = 7
	case 1:
		top = topPool[g.r.n(len(topPool))]
	default:
		top = uint8(g.r.next())
	}
	return mkKey(top, g.n, low, g.r.n(100) < g.nanPct, g.r.n(100) < g.varPct)
}

var thresholds = []int{7, 8, 9, 11, 12, 13, 14, 23, 24, 25, 26, 47, 48, 49, 50, 95, 96, 97, 98, 104, 105, 191, 192, 193, 194, 384, 385, 386}

func genHistory(enc *json.Encoder, r *vrng, idx int, big bool) *ctlRun {
	prof := idx % 7
	nanPct, varPct := 0, 0
	if r.n(4) == 0 {
		nanPct = 5 + r.n(20)
	}
	if r.n(3) == 0 {
		varPct = 30
	}
	refl := nanPct == 0
	upd := r.n(2) == 0
	hint := 0
	if r.n(4) == 0 {
		hint = []int{1, 8, 9, 13, 14, 27, 53, 105, 120, 300}[r.n(10)]
	}
	seed := r.next() & (1<<48 - 1)
	g := &keyGen{r: r, lowMode: r.n(5), topMode: r.n(3), lowBase: uint16(r.next()), splitJ: uint(r.n(6)), nanPct: nanPct, varPct: varPct}
	class := fmt.Sprintf("p%d-low%d-top%d", prof, g.lowMode, g.topMode)
	if nanPct > 0 {
		class += "-nan"
	}
	if hint > 0 {
		class += "-hint"
	}
	if prof == 5 && idx%14 == 5 {
		c := newCtlRun(enc, "nil-map", true, 0, refl, upd, seed)
		for i := 0; i < 12; i++ {
			k := g.fresh()
			switch r.n(8) {
			case 0:
				c.do(opSet, k, 1)
			case 1:
				c.do(opGet, k, 0)
			case 2:
				c.do(opGet1, k, 0)
			case 3:
				c.do(opDel, k, 0)
			case 4:
				c.do(opClear, 0, 0)
			case 5:
				c.do(opLen, 0, 0)
			case 6:
				c.do(opIterNew, 0, 0)
				c.do(opIterNext, 0, 0)
			default:
				c.do(opDrain, 0, 0)
			}
		}
		return c
	}
	ptr := r.n(3) == 0
	if ptr {
		class += "-ptr"
	}
	c := newCtlRunP(enc, class, false, hint, refl, upd, ptr, seed)
	var keys []uint64 // every key ever used (present or deleted)
	val := uint64(0)
	nv := func() uint64 { val++; return val }
	pick := func() uint64 {
		if len(keys) == 0 || r.n(10) == 0 {
			return g.fresh()
		}
		k := keys[r.n(len(keys))]
		if varPct > 0 && r.n(3) == 0 {
			k ^= vVarBit
		}
		return k
	}
	// while a growth is in progress (old and new bucket arrays both live) look keys up and
	// range over the map: this is where the incremental evacuation can lose or duplicate entries
	burst := func() {
		if c.h == nil || c.h.oldbuckets == nil || c.stop || r.n(3) != 0 {
			return
		}
		c.rec.Cov["growBursts"]++
		if c.h.flags&sameSizeGrow != 0 {
			c.rec.Cov["sameSizeBursts"]++
		}
		for j := 0; j < 5 && len(keys) > 0; j++ {
			c.do(opGet, keys[r.n(len(keys))], 0)
		}
		if r.n(3) == 0 {
			c.do(opDrain, 0, 0)
		}
		if r.n(5) == 0 { // clear in the middle of a growth, then carry on
			c.rec.Cov["clearDuringGrow"]++
			c.do(opClear, 0, 0)
		}
	}
	ins := func() {
		k := g.fresh()
		keys = append(keys, k)
		c.do(opSet, k, nv())
		burst()
	}
	probe := func() {
		switch r.n(6) {
		case 0:
			c.do(opLen, 0, 0)
		case 1:
			c.do(opGet1, pick(), 0)
		default:
			c.do(opGet, pick(), 0)
		}
	}
	target := thresholds[r.n(len(thresholds))]
	if !big && target > 110 {
		target = thresholds[r.n(21)]
	}
	if big {
		target = 300 + r.n(500)
	}
	switch prof {
	case 0: // fill across a threshold, drains at the boundary, delete, drain
		for i := 0; i < target+2; i++ {
			ins()
			if r.n(4) == 0 {
				probe()
			}
			if i >= target-2 && !big {
				c.do(opDrain, 0, 0)
			}
		}
		c.do(opDrain, 0, 0)
		for _, k := range keys {
			if r.n(2) == 0 {
				c.do(opDel, k, 0)
			}
			if r.n(8) == 0 {
				probe()
			}
		}
		c.do(opDrain, 0, 0)
		for _, k := range keys {
			c.do(opGet, k, 0)
		}
	case 1: // churn over a small pool with updates, deletes, re-inserts, clears
		n := 60 + r.n(300)
		if big {
			n = 2000 + r.n(3000)
		}
		pool := 4 + r.n(target+4)
		for i := 0; i < pool; i++ {
			keys = append(keys, g.fresh())
		}
		for i := 0; i < n && !c.stop; i++ {
			switch x := r.n(20); {
			case x < 8:
				c.do(opSet, pick(), nv())
				burst()
			case x < 13:
				c.do(opDel, pick(), 0)
				burst()
			case x < 17:
				probe()
			case x == 17 && r.n(6) == 0:
				c.do(opClear, 0, 0)
			case x == 18:
				c.do(opDrain, 0, 0)
			default:
				c.do(opGet, pick(), 0)
			}
		}
		c.do(opDrain, 0, 0)
	case 2: // per-bucket churn: many overflow buckets, few entries -> same-size growth
		rounds := 6 + r.n(30)
		if big {
			rounds = 60 + r.n(100)
		}
		g.lowMode = 1
		for rd := 0; rd < rounds && !c.stop; rd++ {
			g.lowBase = uint16(rd % (1 + r.n(16)))
			var mine []uint64
			m := 9 + r.n(12)
			for i := 0; i < m; i++ {
				k := g.fresh()
				mine = append(mine, k)
				keys = append(keys, k)
				c.do(opSet, k, nv())
				burst()
			}
			keep := r.n(3)
			for i := keep; i < len(mine); i++ {
				c.do(opDel, mine[i], 0)
				burst()
				if r.n(6) == 0 {
					probe()
				}
			}
			if r.n(3) == 0 {
				c.do(opDrain, 0, 0)
			}
		}
		for _, k := range keys {
			if r.n(3) == 0 {
				c.do(opGet, k, 0)
			}
		}
		c.do(opDrain, 0, 0)
	case 3, 4: // iterators interleaved with mutation, started just below a threshold
		pre := target - 1 - r.n(3)
		if pre < 1 {
			pre = 1
		}
		for i := 0; i < pre; i++ {
			ins()
		}
		if prof == 4 { // leave holes first
			for _, k := range keys {
				if r.n(3) == 0 {
					c.do(opDel, k, 0)
				}
			}
		}
		active := [3]bool{}
		steps := 3*pre + 40
		for i := 0; i < steps && !c.stop; i++ {
			s := r.n(3)
			switch x := r.n(12); {
			case x < 2 && !active[s]:
				c.do(opIterNew, uint64(s), 0)
				c.do(opIterNext, uint64(s), 0)
				active[s] = true
			case x < 6:
				for s2 := 0; s2 < 3; s2++ {
					if active[s2] {
						c.do(opIterNext, uint64(s2), 0)
					}
				}
			case x < 8:
				ins()
			case x == 8:
				c.do(opDel, pick(), 0)
			case x == 9:
				c.do(opSet, pick(), nv())
			case x == 10 && r.n(25) == 0:
				c.do(opClear, 0, 0)
			default:
				probe()
			}
		}
		for s := 0; s < 3 && !c.stop; s++ { // run every iterator to its end
			for n := 0; active[s] && n < 3*len(keys)+50; n++ {
				c.do(opIterNext, uint64(s), 0)
				if c.trk[s].done {
					break
				}
			}
		}
		c.do(opDrain, 0, 0)
	case 6: // overflow chains emptied in every order: emptyOne / emptyRest bookkeeping of mapdelete
		// a few buckets, each with 9..30 colliding keys, so that overflow buckets are full of live
		// cells; then deletes in a random permutation (this leaves emptyOne cells at the head of an
		// overflow bucket while later cells are live, and deletes last slots of the preceding
		// bucket afterwards), every survivor looked up after every delete
		g.lowMode = 1
		nb := 1 + r.n(3)
		per := 9 + r.n(22)
		if big {
			nb, per = 2+r.n(6), 17+r.n(40)
		}
		for bkt := 0; bkt < nb; bkt++ {
			g.lowBase = uint16(bkt)
			for i := 0; i < per; i++ {
				k := g.fresh()
				keys = append(keys, k)
				c.do(opSet, k, nv())
			}
		}
		alive := append([]uint64(nil), keys...)
		order := append([]uint64(nil), keys...)
		switch r.n(3) {
		case 0: // reverse insertion order inside each run of 2..4 keys: slot 0 of an overflow bucket before slot 7 of its predecessor
			for i := 0; i+1 < len(order); i += 2 + r.n(3) {
				order[i], order[i+1] = order[i+1], order[i]
			}
		case 1:
			for i := len(order) - 1; i > 0; i-- {
				j := r.n(i + 1)
				order[i], order[j] = order[j], order[i]
			}
		default: // heads of overflow buckets first (every 8th key of a chain, starting with the 9th), then random
			var heads, rest []uint64
			for i, k := range order {
				if i%per >= 8 && (i%per)%8 == 0 {
					heads = append(heads, k)
				} else {
					rest = append(rest, k)
				}
			}
			for i := len(rest) - 1; i > 0; i-- {
				j := r.n(i + 1)
				rest[i], rest[j] = rest[j], rest[i]
			}
			order = append(heads, rest...)
		}
		stopAt := len(order) - r.n(1+len(order)/3)
		for n, k := range order {
			if n >= stopAt || c.stop {
				break
			}
			c.do(opDel, k, 0)
			for i, a := range alive {
				if a == k {
					alive = append(alive[:i], alive[i+1:]...)
					break
				}
			}
			if big && n%4 != 0 {
				continue
			}
			for _, a := range alive { // every survivor of the same chain must still be found
				if a&0xffff == k&0xffff || r.n(16) == 0 {
					c.do(opGet, a, 0)
				}
			}
			c.do(opLen, 0, 0)
			if r.n(6) == 0 {
				c.do(opDrain, 0, 0)
			}
		}
		for _, a := range alive { // overwriting a survivor must not add an entry
			c.do(opSet, a, nv())
		}
		c.do(opDrain, 0, 0)
		for _, k := range keys { // re-insert everything, delete everything
			c.do(opSet, k, nv())
		}
		c.do(opDrain, 0, 0)
		for _, k := range keys {
			c.do(opDel, k, 0)
		}
		c.do(opDrain, 0, 0)
	default: // drains in the middle of a growth, right after each trigger
		for i := 0; i < target+20 && !c.stop; i++ {
			ins()
			if c.h.oldbuckets != nil && r.n(2) == 0 {
				c.do(opDrain, 0, 0)
				c.do(opGet, pick(), 0)
			}
			if r.n(5) == 0 {
				c.do(opDel, pick(), 0)
			}
		}
		c.do(opDrain, 0, 0)
	}
	c.do(opLen, 0, 0)
	return c
}

// regression guard for the repaired finding mapclear-keeps-stale-overflow-links: clear() of a
// map with B >= 4 whose preallocated overflow bucket is in use must wipe the overflow links
// (memclr* used to be empty in llgo: two chains then shared one bucket and keys were lost)
func witnessClear(enc *json.Encoder) {
	c := newCtlRun(enc, "witness-clear-stale-overflow", false, 0, true, false, 12345)
	c.noViol = true
	v := uint64(0)
	set := func(low uint16, i uint64) { v++; c.do(opSet, mkKey(7, i, low, false, false), v) }
	for i := uint64(0); i < 20; i++ {
		set(1, i)
	}
	for i := uint64(0); i < 40; i++ {
		set(uint16(16+i), 100+i)
	}
	c.do(opClear, 0, 0)
	tainted := c.rec.Tainted
	for i := uint64(0); i < 9; i++ {
		set(2, 200+i)
	}
	for i := uint64(0); i < 9; i++ {
		set(1, 300+i)
	}
	for i := uint64(0); i < 90; i++ {
		set(uint16(32+i), 400+i)
		c.stop = false
	}
	for i := uint64(0); i < 9; i++ {
		c.do(opGet, mkKey(7, 200+i, 2, false, false), 0)
		c.stop = false
	}
	c.do(opLen, 0, 0)
	c.finish()
	if len(c.viols) > 0 {
		c.noViol = false
		c.nviol = 0
		key := "mapclear-keeps-stale-overflow-links"
		if !tainted {
			key = "witness-clear-unexpected-failure"
		}
		c.viol(key, "clear(m) on a map with B>=4 whose preallocated overflow bucket is in use keeps the "+
			"bucket's overflow link; the bucket is handed out again, two chains share it, and after the next growth a key stored after the clear is no longer found ("+strings.Join(c.viols, ",")+")")
	}
}

// second recorded finding: a range loop that started before a growth completed keeps walking the
// old bucket array; clear() does not mark that array, and NaN-keyed entries are returned from it
func witnessNanClear(enc *json.Encoder) {
	c := newCtlRun(enc, "witness-nan-after-clear", false, 0, false, false, 4242)
	for i := uint64(0); i < 4; i++ {
		c.do(opSet, mkKey(7, i, uint16(i), true, false), 100+i)
	}
	c.do(opIterNew, 0, 0)
	c.do(opIterNext, 0, 0)
	for i := uint64(10); i < 16; i++ { // 9th entry doubles the table; the next writes finish the evacuation
		c.do(opSet, mkKey(7, i, uint16(i), false, false), i)
	}
	c.do(opClear, 0, 0)
	c.do(opSet, mkKey(7, 50, 50, false, false), 50)
	for i := 0; i < 6; i++ {
		c.do(opIterNext, 0, 0)
	}
	c.finish()
}

// large delete-heavy history with well-spread keys (the natural case: a few thousand keys, random
// deletes, survivors overwritten, everything drained), checked against the reference map only
// (too long to replay in Coq in the quick tier: nocoq)
func genDeleteHeavy(enc *json.Encoder, r *vrng, n int) *ctlRun {
	seed := r.next() & (1<<48 - 1)
	c := newCtlRunP(enc, "delete-heavy-nocoq", false, 0, true, r.n(2) == 0, r.n(2) == 0, seed)
	c.rec.NoCoq = true
	g := &keyGen{r: r, lowMode: 4, topMode: 2}
	var keys []uint64
	v := uint64(0)
	for i := 0; i < n; i++ {
		k := g.fresh()
		keys = append(keys, k)
		v++
		c.do(opSet, k, v)
	}
	c.do(opLen, 0, 0)
	alive := map[uint64]bool{}
	for _, k := range keys {
		alive[k] = true
	}
	for round := 0; round < 3 && !c.stop; round++ {
		for i := len(keys) - 1; i > 0; i-- {
			j := r.n(i + 1)
			keys[i], keys[j] = keys[j], keys[i]
		}
		for _, k := range keys {
			if alive[k] && r.n(10) < 7 {
				c.do(opDel, k, 0)
				alive[k] = false
			}
		}
		c.do(opLen, 0, 0)
		for _, k := range keys {
			c.do(opGet, k, 0)
		}
		c.do(opDrain, 0, 0)
		for _, k := range keys {
			if alive[k] {
				v++
				c.do(opSet, k, v)
			}
		}
		c.do(opLen, 0, 0)
		c.do(opDrain, 0, 0)
		for _, k := range keys { // refill a part
			if !alive[k] && r.n(3) == 0 {
				v++
				c.do(opSet, k, v)
				alive[k] = true
			}
		}
	}
	for _, k := range keys {
		c.do(opDel, k, 0)
	}
	c.do(opLen, 0, 0)
	c.do(opDrain, 0, 0)
	return c
}

// Deterministic scenario class: per-bucket insert/delete churn at constant size until the
// overflow-bucket threshold starts a SAME-SIZE growth, clear(m) while that growth is in
// progress (after 0..2 more writes), then a refill past the next load-factor threshold (a
// doubling), with every key looked up along the way.  mapclear must drop the old array AND
// reset the sameSizeGrow flag, otherwise the doubling is evacuated as a same-size move.
func scenarioSameSizeClear(enc *json.Encoder, hint int, writesBeforeClear int, ptr bool, seed uint64) {
	class := fmt.Sprintf("scenario-samesize-clear-h%d-w%d", hint, writesBeforeClear)
	if ptr {
		class += "-ptr"
	}
	c := newCtlRunP(enc, class, false, hint, true, false, ptr, seed)
	v := uint64(0)
	uniq := uint64(0)
	set := func(low uint16) uint64 {
		v++
		uniq++
		k := mkKey(7, uniq, low, false, false)
		c.do(opSet, k, v)
		return k
	}
	nb := 1 << c.h.B // buckets (hint 14 -> 4, hint 27 -> 8)
	var kept []uint64
	started := false
	for round := 0; round < 4*nb && !started && !c.stop; round++ {
		low := uint16(round % nb)
		var mine []uint64
		for i := 0; i < 9 && !c.stop; i++ { // the 9th colliding key needs an overflow bucket
			mine = append(mine, set(low))
			if c.h.flags&sameSizeGrow != 0 && c.h.oldbuckets != nil {
				started = true
				break
			}
		}
		if started {
			kept = append(kept, mine...)
			break
		}
		kept = append(kept, mine[0])
		for _, k := range mine[1:] { // back to constant size: the overflow bucket stays
			c.do(opDel, k, 0)
		}
	}
	c.rec.Cov["scenarioSameSizeStarted"] = 0
	if started {
		c.rec.Cov["scenarioSameSizeStarted"] = 1
	}
	for i := 0; i < writesBeforeClear && c.h.oldbuckets != nil; i++ {
		kept = append(kept, set(uint16(nb+i)))
	}
	if c.h.oldbuckets != nil && c.h.flags&sameSizeGrow != 0 {
		c.rec.Cov["scenarioClearDuringSameSize"] = 1
	}
	c.do(opClear, 0, 0)
	c.do(opLen, 0, 0)
	for _, k := range kept {
		c.do(opGet, k, 0)
	}
	// refill with well-spread keys past the load-factor threshold of the current size and the next
	var keys []uint64
	limit := 6*2*nb + 20
	for i := 0; i < limit && !c.stop; i++ {
		keys = append(keys, set(uint16(i)))
		if i%8 == 7 || c.h.oldbuckets != nil {
			for _, k := range keys {
				c.do(opGet, k, 0)
			}
			c.do(opLen, 0, 0)
		}
	}
	c.do(opDrain, 0, 0)
	for _, k := range keys {
		c.do(opGet, k, 0)
	}
	for i, k := range keys {
		if i%3 == 0 {
			c.do(opDel, k, 0)
		}
	}
	c.do(opDrain, 0, 0)
	c.do(opLen, 0, 0)
	c.finish()
}

// Deterministic scenario class: a range loop is parked inside the LAST preallocated overflow
// bucket of the bucket array when the map is cleared and refilled.  mapclear used to wipe and
// reuse the array: makeBucketArray then stores the sentinel overflow pointer (the array base)
// in exactly that bucket, the loop followed it into bucket 0 and produced entries inserted
// after the clear a second time when it reached bucket 0 in its normal course.
func scenarioIterPreallocClear(enc *json.Encoder, seed uint64, ptr bool) {
	class := "scenario-iter-in-prealloc-overflow-clear"
	if ptr {
		class += "-ptr"
	}
	c := newCtlRunP(enc, class, false, 53, true, false, ptr, seed) // hint 53: B = 4, one preallocated overflow bucket
	v := uint64(0)
	uniq := uint64(0)
	set := func(low uint16) {
		v++
		uniq++
		c.do(opSet, mkKey(7, uniq, low, false, false), v)
	}
	for i := 0; i < 12; i++ { // one chain of 12: its overflow bucket is the preallocated one
		set(5)
	}
	for i := 0; i < 20; i++ {
		set(uint16(i))
	}
	last := add(c.h.buckets, (bucketShift(c.h.B)+bucketShift(c.h.B-4)-1)*uintptr(c.t.BucketSize))
	c.do(opIterNew, 0, 0)
	parked := false
	for n := 0; n < 40 && !c.stop; n++ {
		c.do(opIterNext, 0, 0)
		if c.its[0] != nil && unsafe.Pointer(c.its[0].bptr) == last {
			parked = true
			break
		}
		if c.trk[0].done {
			break
		}
	}
	if parked {
		c.rec.Cov["scenarioIterParkedInPrealloc"] = 1
	}
	c.do(opClear, 0, 0)
	for i := 0; i < 40; i++ { // refill every bucket, bucket 0 included
		set(uint16(i))
	}
	for n := 0; n < 120 && !c.stop && !c.trk[0].done; n++ {
		c.do(opIterNext, 0, 0)
	}
	c.do(opDrain, 0, 0)
	c.do(opLen, 0, 0)
	c.finish()
}

// which mapclear the working tree has: does clear(m) take a fresh bucket array while a range loop
// may be running (iterator flags set), or does it always wipe and reuse the array?  Model.v has
// both (flag clearfresh); the driver selects the one that is there.
func probeClearFresh(enc *json.Encoder) {
	vresetArena()
	vrnd = 99
	t := mkCtlType(true, false, false)
	h := MakeMap(t, 0)
	k := uint64(1)
	*(*uint64)(MapAssign(t, h, unsafe.Pointer(&k))) = 1
	it := NewMapIter(t, h)
	_ = it
	before := h.buckets
	MapClear(t, h)
	enc.Encode(map[string]any{"kind": "probe", "clear_fresh": h.buckets != before})
}

func runScenarios(enc *json.Encoder) {
	probeClearFresh(enc)
	for sd := uint64(1); sd <= 8; sd++ {
		scenarioIterPreallocClear(enc, 7000+sd*977, sd%2 == 0)
	}
	for _, hint := range []int{14, 27} {
		for w := 0; w < 3; w++ {
			for _, ptr := range []bool{false, true} {
				scenarioSameSizeClear(enc, hint, w, ptr, uint64(1000+hint*10+w))
			}
		}
	}
}

func TestVerif(t *testing.T) {
	seed, _ := strconv.ParseUint(os.Getenv("VERIF_SEED"), 10, 64)
	n, _ := strconv.Atoi(os.Getenv("VERIF_N"))
	nbig, _ := strconv.Atoi(os.Getenv("VERIF_NBIG"))
	f, err := os.Create(os.Getenv("VERIF_OUT"))
	if err != nil {
		t.Fatal(err)
	}
	defer f.Close()
	enc := json.NewEncoder(f)
	switch os.Getenv("VERIF_MODE") {
	case "witness":
		witnessClear(enc)
		witnessNanClear(enc)
		return
	case "typed":
		runTyped(enc, seed, n)
		return
	case "scenarios":
		runScenarios(enc)
		return
	case "replay": // re-run one recorded history (bin/check C06 --replay file)
		var rp violRec
		data, err := os.ReadFile(os.Getenv("VERIF_REPLAY"))
		if err != nil || json.Unmarshal(data, &rp) != nil {
			t.Fatal("cannot read VERIF_REPLAY")
		}
		probeClearFresh(enc)
		c := newCtlRunP(enc, "replay:"+rp.Class, rp.Nil, rp.Hint, rp.Refl, rp.Upd, rp.Ptr, rp.Seed)
		for _, o := range rp.Ops {
			c.do(int(o[0]), o[1], o[2])
		}
		c.finish()
		return
	}
	r := &vrng{s: seed*7919 + 17}
	for i := 0; i < n; i++ {
		c := genHistory(enc, r, i, false)
		c.finish()
	}
	for i := 0; i < nbig; i++ {
		c := genHistory(enc, r, i, true)
		c.finish()
	}
	nheavy, _ := strconv.Atoi(os.Getenv("VERIF_NHEAVY"))
	for i := 0; i < nheavy; i++ {
		c := genDeleteHeavy(enc, r, 2000+r.n(5000))
		c.finishSummary()
	}
}
