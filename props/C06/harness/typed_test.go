package rt

// Key-type side (alg.go): the real strhash / f64hash / nilinterhash / typehash and
// the *equal functions inside hand-built maptypes for string, float64 and
// interface{} keys, compared operation by operation with a native Go map holding
// the corresponding native keys.

import (
	"encoding/json"
	"fmt"
	gomath "math"
	"sort"
	"strings"
	"unsafe"

	"github.com/goplus/llgo/runtime/abi"
)

var (
	tyInt64   = &abi.Type{Size_: 8, Align_: 8, Kind_: uint8(abi.Int64), TFlag: abi.TFlagRegularMemory, Equal: memequal64, Str_: "int64"}
	tyString  = &abi.Type{Size_: 16, PtrBytes: 8, Align_: 8, Kind_: uint8(abi.String), Equal: strequal, Str_: "string"}
	tyFloat64 = &abi.Type{Size_: 8, Align_: 8, Kind_: uint8(abi.Float64), Equal: f64equal, Str_: "float64"}
	tyPtr     = &abi.Type{Size_: 8, PtrBytes: 8, Align_: 8, Kind_: uint8(abi.Pointer) | abi.KindDirectIface, TFlag: abi.TFlagRegularMemory, Equal: memequalptr, Str_: "*int"}
	tySlice   = &abi.Type{Size_: 24, PtrBytes: 8, Align_: 8, Kind_: uint8(abi.Slice), Str_: "[]int"}
	tyEface   = &abi.InterfaceType{Type: abi.Type{Size_: 16, PtrBytes: 16, Align_: 8, Kind_: uint8(abi.Interface), Equal: nilinterequal, Str_: "interface {}"}}
	tyArr2F   *abi.ArrayType
	tyStruct  *abi.StructType // struct{A int64; B string}
	tyStBad   *abi.StructType // struct{S []int}: not comparable, Equal == nil
	tyStAny   *abi.StructType // struct{X interface{}}
)

func init() {
	tyArr2F = &abi.ArrayType{Type: abi.Type{Size_: 16, Align_: 8, Kind_: uint8(abi.Array), Str_: "[2]float64"}, Elem: tyFloat64, Len: 2}
	tyArr2F.Equal = func(p, q unsafe.Pointer) bool { return arrayequal(unsafe.Pointer(tyArr2F), p, q) }
	tyStruct = &abi.StructType{Type: abi.Type{Size_: 24, PtrBytes: 16, Align_: 8, Kind_: uint8(abi.Struct), Str_: "struct { A int64; B string }"},
		Fields: []abi.StructField{{Name_: "A", Typ: tyInt64, Offset: 0}, {Name_: "B", Typ: tyString, Offset: 8}}}
	tyStruct.Equal = func(p, q unsafe.Pointer) bool { return structequal(unsafe.Pointer(tyStruct), p, q) }
	tyStBad = &abi.StructType{Type: abi.Type{Size_: 24, PtrBytes: 8, Align_: 8, Kind_: uint8(abi.Struct), Str_: "struct { S []int }"},
		Fields: []abi.StructField{{Name_: "S", Typ: tySlice, Offset: 0}}}
	tyStAny = &abi.StructType{Type: abi.Type{Size_: 16, PtrBytes: 16, Align_: 8, Kind_: uint8(abi.Struct), Str_: "struct { X interface {} }"},
		Fields: []abi.StructField{{Name_: "X", Typ: &tyEface.Type, Offset: 0}}}
	tyStAny.Equal = func(p, q unsafe.Pointer) bool { return structequal(unsafe.Pointer(tyStAny), p, q) }
}

type stAB struct {
	A int64
	B string
}
type stBad struct{ S []int }
type stAny struct{ X any }

var vkeep []any // keeps every key object reachable (bucket memory is opaque to the GC)

func keepPtr[T any](v T) unsafe.Pointer {
	p := new(T)
	*p = v
	vkeep = append(vkeep, p)
	return unsafe.Pointer(p)
}

var vptrs = []*int{new(int), new(int), new(int)}

// llgo representation of a dynamic value inside an interface
func toEface(x any) eface {
	switch v := x.(type) {
	case nil:
		return eface{}
	case int64:
		return eface{tyInt64, keepPtr(v)}
	case string:
		return eface{tyString, keepPtr(v)}
	case float64:
		return eface{tyFloat64, keepPtr(v)}
	case [2]float64:
		return eface{&tyArr2F.Type, keepPtr(v)}
	case stAB:
		return eface{&tyStruct.Type, keepPtr(v)}
	case *int:
		return eface{tyPtr, unsafe.Pointer(v)}
	case []int:
		return eface{tySlice, keepPtr(v)}
	case stBad:
		return eface{&tyStBad.Type, keepPtr(v)}
	case stAny:
		return eface{&tyStAny.Type, keepPtr(toEface(v.X))}
	}
	panic("toEface")
}

func fromEface(e eface) any {
	switch e._type {
	case nil:
		return nil
	case tyInt64:
		return *(*int64)(e.data)
	case tyString:
		return *(*string)(e.data)
	case tyFloat64:
		return *(*float64)(e.data)
	case &tyArr2F.Type:
		return *(*[2]float64)(e.data)
	case &tyStruct.Type:
		return *(*stAB)(e.data)
	case tyPtr:
		return (*int)(e.data)
	case &tyStAny.Type:
		return stAny{fromEface(*(*eface)(e.data))}
	}
	return "?"
}

func render(x any) string {
	switch v := x.(type) {
	case nil:
		return "nil"
	case int64:
		return fmt.Sprintf("i:%d", v)
	case string:
		return fmt.Sprintf("s:%q", v)
	case float64:
		return fmt.Sprintf("f:%016x", gomath.Float64bits(v))
	case [2]float64:
		return fmt.Sprintf("a:%016x,%016x", gomath.Float64bits(v[0]), gomath.Float64bits(v[1]))
	case stAB:
		return fmt.Sprintf("st:%d,%q", v.A, v.B)
	case *int:
		for i, p := range vptrs {
			if p == v {
				return fmt.Sprintf("p:%d", i)
			}
		}
		return "p:?"
	case stAny:
		return "sa:" + render(v.X)
	}
	return fmt.Sprintf("?%T", x)
}

type typedCfg struct {
	name   string
	t      *maptype
	encode func(x any) unsafe.Pointer
	decode func(p unsafe.Pointer) any
	pool   func(r *vrng) any
}

func mkTypedMap(key *abi.Type, hasher func(unsafe.Pointer, uintptr) uintptr, flags uint32) *maptype {
	el := &abi.Type{Size_: 8, Align_: 8, Kind_: uint8(abi.Uint64), Equal: memequal64, Str_: "uint64", TFlag: abi.TFlagRegularMemory}
	ks := key.Size_
	bsz := 8 + 8*ks + 8*8 + 8
	bt := &abi.Type{Size_: bsz, PtrBytes: bsz, Align_: 8, Kind_: uint8(abi.Struct), Str_: "bucket"}
	mt := &abi.MapType{Key: key, Elem: el, Bucket: bt, Hasher: hasher, KeySize: uint8(ks), ValueSize: 8, BucketSize: uint16(bsz), Flags: flags}
	mt.Type.Kind_ = uint8(abi.Map)
	return mt
}

var strPool = func() []string {
	out := []string{"", "a", "b", "ab", "ba", "abc", "abcd", "abcde", "abcdefg", "abcdefgh", "abcdefghi"}
	base := strings.Repeat("0123456789abcdef", 8)
	for _, n := range []int{15, 16, 17, 31, 32, 33, 47, 48, 49, 64, 95, 96, 97, 128} {
		out = append(out, base[:n], base[:n-1]+"X", "Y"+base[1:n])
	}
	return out
}()

var fltPool = []float64{0, gomath.Copysign(0, -1), 1, -1, 0.5, gomath.Inf(1), gomath.Inf(-1), gomath.NaN(),
	gomath.Float64frombits(0x7ff8000000000001), gomath.Float64frombits(0xfff8000000000000), 5e-324, gomath.MaxFloat64, 3, 1e100}

func typedCfgs() []typedCfg {
	return []typedCfg{
		{name: "string", t: mkTypedMap(tyString, strhash, 4|8),
			encode: func(x any) unsafe.Pointer { return keepPtr(x.(string)) },
			decode: func(p unsafe.Pointer) any { return *(*string)(p) },
			pool: func(r *vrng) any {
				if r.n(3) == 0 {
					return fmt.Sprintf("k%d", r.n(400))
				}
				s := strPool[r.n(len(strPool))]
				return string(append([]byte(nil), s...)) // fresh backing array
			}},
		{name: "float64", t: mkTypedMap(tyFloat64, f64hash, 8),
			encode: func(x any) unsafe.Pointer { return keepPtr(x.(float64)) },
			decode: func(p unsafe.Pointer) any { return *(*float64)(p) },
			pool: func(r *vrng) any {
				if r.n(3) == 0 {
					return float64(r.n(300)) / 4
				}
				return fltPool[r.n(len(fltPool))]
			}},
		{name: "eface", t: mkTypedMap(&tyEface.Type, nilinterhash, 8|16),
			encode: func(x any) unsafe.Pointer { return keepPtr(toEface(x)) },
			decode: func(p unsafe.Pointer) any { return fromEface(*(*eface)(p)) },
			pool: func(r *vrng) any {
				switch r.n(12) {
				case 0:
					return nil
				case 1:
					return int64(r.n(6))
				case 2:
					return float64(r.n(6))
				case 3:
					return fmt.Sprint(r.n(6))
				case 4:
					return fltPool[r.n(len(fltPool))]
				case 5:
					return [2]float64{fltPool[r.n(4)], fltPool[r.n(4)]}
				case 6:
					return [2]float64{fltPool[r.n(len(fltPool))], 1}
				case 7:
					return stAB{int64(r.n(3)), strPool[r.n(6)]}
				case 8:
					return vptrs[r.n(len(vptrs))]
				case 9:
					return stAny{int64(r.n(3))}
				case 10:
					return stAny{fltPool[r.n(3)]}
				default:
					return int64(r.n(200))
				}
			}},
	}
}

var unhashables = []any{[]int{1}, stBad{[]int{1}}, stAny{[]int{2}}, stAny{stAny{[]int{3}}}}

type typedRec struct {
	Kind  string `json:"kind"`
	Cfg   string `json:"cfg"`
	Ops   int    `json:"ops"`
	Panics int   `json:"panics"`
	MaxB  int    `json:"maxB"`
	NaNs  int    `json:"nans"`
}

func runTyped(enc *json.Encoder, seed uint64, n int) {
	r := &vrng{s: seed*104729 + 5}
	for _, cfg := range typedCfgs() {
		for hidx := 0; hidx < n; hidx++ {
			vresetArena()
			vkeep = vkeep[:0]
			vfatal = vfatal[:0]
			vrnd = r.next() & (1<<48 - 1)
			var h *hmap
			isNil := hidx%10 == 9
			if !isNil {
				h = MakeMap(cfg.t, []int{0, 0, 9, 60}[r.n(4)])
			}
			nm := map[any]uint64{}
			var log []string
			rec := typedRec{Kind: "typed", Cfg: cfg.name}
			nviol := 0
			viol := func(key, what string) {
				nviol++
				if nviol > 2 {
					return
				}
				tail := log
				if len(tail) > 40 {
					tail = tail[len(tail)-40:]
				}
				enc.Encode(map[string]any{"kind": "viol", "key": key, "what": what, "cfg": cfg.name, "history_tail": tail, "nil": isNil})
			}
			nops := 30 + r.n(400)
			if isNil {
				nops = 12
			}
			val := uint64(0)
			for i := 0; i < nops && nviol == 0; i++ {
				var x any
				unh := cfg.name == "eface" && r.n(25) == 0
				if unh {
					x = unhashables[r.n(len(unhashables))]
				} else {
					x = cfg.pool(r)
				}
				if f, ok := x.(float64); ok && f != f {
					rec.NaNs++
				}
				kp := cfg.encode(x)
				code := r.n(10)
				var gotPanic, wantPanic string
				call := func(f func()) (msg string) {
					defer func() {
						if e := recover(); e != nil {
							msg = "panic: " + fmt.Sprint(e)
						}
					}()
					f()
					return ""
				}
				rec.Ops++
				switch {
				case code < 4: // set
					val++
					v := val
					log = append(log, fmt.Sprintf("set %s %d", render(x), v))
					gotPanic = call(func() { *(*uint64)(MapAssign(cfg.t, h, kp)) = v })
					wantPanic = call(func() {
						if isNil {
							var z map[any]uint64
							z[x] = v
						}
						nm[x] = v
					})
				case code < 7: // get
					log = append(log, "get "+render(x))
					var gv, wv uint64
					var gok, wok bool
					gotPanic = call(func() {
						p, ok := MapAccess2(cfg.t, h, kp)
						gv, gok = *(*uint64)(p), ok
						if v1 := *(*uint64)(MapAccess1(cfg.t, h, kp)); v1 != gv {
							viol("access1-access2-differ", "mapaccess1 and mapaccess2 disagree on "+render(x))
						}
					})
					wantPanic = call(func() { wv, wok = nm[x] })
					if gotPanic == "" && wantPanic == "" && (gv != wv || gok != wok) {
						viol("typed-lookup-mismatch-"+cfg.name, fmt.Sprintf("m[%s] = (%d,%v), native map: (%d,%v)", render(x), gv, gok, wv, wok))
					}
				case code < 9: // delete
					log = append(log, "del "+render(x))
					gotPanic = call(func() { MapDelete(cfg.t, h, kp) })
					wantPanic = call(func() { delete(nm, x) })
				default:
					if r.n(8) == 0 {
						log = append(log, "clear")
						MapClear(cfg.t, h)
						clear(nm)
					}
				}
				if (gotPanic == "") != (wantPanic == "") {
					viol("unhashable-key-panic-mismatch", fmt.Sprintf("op %q: llgo map %q, native map %q", log[len(log)-1], gotPanic, wantPanic))
				} else if gotPanic != "" {
					rec.Panics++
					if !isNil || code >= 4 {
						if !strings.Contains(gotPanic, "hash of unhashable type") {
							viol("unhashable-key-panic-message", gotPanic)
						}
					}
					if h != nil && h.flags&hashWriting != 0 {
						viol("panic-leaves-hashWriting", "flags after a hasher panic: "+fmt.Sprint(h.flags))
					}
				}
				if n := MapLen(h); n != len(nm) {
					viol("typed-len-mismatch-"+cfg.name, fmt.Sprintf("len = %d, native len = %d after %q", n, len(nm), log[len(log)-1]))
				}
				if len(vfatal) > 0 {
					viol("runtime-throw-continues", vfatal[0])
				}
				if h != nil && int(h.B) > rec.MaxB {
					rec.MaxB = int(h.B)
				}
				if i%37 == 36 || i == nops-1 { // quiescent range loop
					var got, want []string
					it := NewMapIter(cfg.t, h)
					for c := 0; c <= len(nm)+8; c++ {
						ok, kp2, vp2 := MapIterNext(it)
						if !ok {
							break
						}
						got = append(got, fmt.Sprintf("%s=%d", render(cfg.decode(kp2)), *(*uint64)(vp2)))
					}
					for k, v := range nm {
						want = append(want, fmt.Sprintf("%s=%d", render(k), v))
					}
					sort.Strings(got)
					sort.Strings(want)
					if strings.Join(got, ";") != strings.Join(want, ";") {
						viol("typed-range-mismatch-"+cfg.name, fmt.Sprintf("range yields %d entries %v, native %d entries %v", len(got), head(got), len(want), head(want)))
					}
				}
			}
			enc.Encode(rec)
		}
	}
}

func head(s []string) []string {
	if len(s) > 12 {
		return s[:12]
	}
	return s
}
