package rt

// Stand-ins supplied by /verif for the identifiers that map.go / alg.go /
// hash64.go / z_map.go take from the rest of the llgo runtime and that cannot be
// copied (C allocation, C rand, printing).  Everything else (add, newobject,
// newarray, roundupsize, memclr*, noescape, fastrand64, maxAlloc, eface, iface,
// itab, errorString, plainError, isDirectIface, String, efaceOf) is extracted
// textually from the working tree into zz_extracted.go by check.py.

import (
	"unsafe"
)

// ---- allocation: zeroed, 8-byte aligned, kept alive until the next reset ----
var varena [][]uint64

func AllocZ(n uintptr) unsafe.Pointer {
	if n == 0 {
		n = 1
	}
	s := make([]uint64, (n+7)/8)
	varena = append(varena, s)
	return unsafe.Pointer(&s[0])
}

func vresetArena() { varena = varena[:0] }

func Typedmemmove(typ *_type, dst, src unsafe.Pointer) {
	if dst == src || typ.Size_ == 0 {
		return
	}
	copy(unsafe.Slice((*byte)(dst), typ.Size_), unsafe.Slice((*byte)(src), typ.Size_))
}

// ---- deterministic fastrand (48-bit LCG, upper 32 bits); same in C06/Model.v ----
var vrnd uint64

func fastrand() uint32 {
	vrnd = (vrnd*25214903917 + 11) & (1<<48 - 1)
	return uint32(vrnd >> 16)
}

// ---- fatal / throw: llgo's versions print and CONTINUE; record and continue ----
var vfatal []string

func fatal(s string) { vfatal = append(vfatal, "fatal: "+s) }
func throw(s string) { vfatal = append(vfatal, "throw: "+s) }

func atomicOr8(ptr *uint8, v uint8) uint8 {
	old := *ptr
	*ptr |= v
	return old
}

func init() {
	hashkey[0] = 0x9e3779b97f4a7c15 | 1
	hashkey[1] = 0xbf58476d1ce4e5b9 | 1
	hashkey[2] = 0x94d049bb133111eb | 1
	hashkey[3] = 0x2545f4914f6cdd1d | 1
}

// If stubs.go starts to call the C library through its usual import name c (for example
// c.Memset in memclrNoHeapPointers, see props/C06/fixes), the extracted function bodies
// still compile against this stand-in.
type vcshim struct{}

var c vcshim

func (vcshim) Memset(p unsafe.Pointer, v int, n uintptr) unsafe.Pointer {
	b := unsafe.Slice((*byte)(p), n)
	for i := range b {
		b[i] = byte(v)
	}
	return p
}

func (vcshim) Memmove(dst, src unsafe.Pointer, n uintptr) unsafe.Pointer {
	copy(unsafe.Slice((*byte)(dst), n), unsafe.Slice((*byte)(src), n))
	return dst
}
