"""Scratch Go module that lets the ordinary Go compiler execute llgo's own map.go /
alg.go / hash64.go / z_map.go (vehicle S2 of DESIGN.md 2.2).  Only the package
clause is rewritten (and the three go:linkname directives into package maps dropped); the identifiers those files take from other runtime files
are extracted textually from the working tree (so e.g. the empty memclr* bodies
of stubs.go are the ones that run)."""
import os, re, shutil
import vlib

RT = "runtime/internal/runtime"
COPIED = ["map.go", "alg.go", "hash64.go", "z_map.go", "type.go"]

# (file, kind, name)
EXTRACT = [
    ("stubs.go", "func", "add"), ("stubs.go", "func", "newobject"), ("stubs.go", "func", "roundupsize"),
    ("stubs.go", "func", "newarray"), ("stubs.go", "func", "memclrHasPointers"),
    ("stubs.go", "func", "memclrNoHeapPointers"), ("stubs.go", "func", "noescape"),
    ("stubs.go", "func", "fastrand64"), ("stubs.go", "const", "maxAlloc"),
    ("z_face.go", "type", "eface"), ("z_face.go", "type", "iface"), ("z_face.go", "type", "itab"),
    ("z_face.go", "alias", "interfacetype"),
    ("z_error.go", "alias", "errorString"), ("z_error.go", "method", "errorString"),
    ("z_error.go", "alias", "plainError"), ("z_error.go", "method", "plainError"),
    ("z_error.go", "func", "efaceOf"),
    ("z_type.go", "func", "isDirectIface"),
    ("z_string.go", "type", "String"),
]


def _strip_block_comments(src):
    return re.sub(r"/\*.*?\*/", lambda m: "\n" * m.group(0).count("\n"), src, flags=re.S)


def extract(src, kind, name):
    if kind == "func":
        m = re.search(r"^func %s\(.*?^}\n" % re.escape(name), src, re.S | re.M)
        return [m.group(0)] if m else None
    if kind == "method":
        ms = re.findall(r"^func \(\w+ \*?%s\) .*?^}\n" % re.escape(name), src, re.S | re.M)
        return ms or None
    if kind == "type":
        m = re.search(r"^type %s struct \{.*?^}\n" % re.escape(name), src, re.S | re.M)
        return [m.group(0)] if m else None
    if kind == "alias":
        m = re.search(r"^type %s =? ?[\w.]+\n" % re.escape(name), src, re.M)
        return [m.group(0)] if m else None
    if kind == "const":
        for m in re.finditer(r"^const \(\n.*?^\)\n", src, re.S | re.M):
            if re.search(r"^\s*%s\s*=" % re.escape(name), m.group(0), re.M):
                return [m.group(0)]
        return None
    return None


def build(ck, harness_dir, dest=None):
    """returns (module_dir, error or None)"""
    repo = vlib.REPO
    d = dest or os.path.join(ck.work, "c06mod")
    pk = os.path.join(d, "rt")
    if os.path.isdir(d):
        shutil.rmtree(d)
    os.makedirs(pk)
    open(os.path.join(d, "go.mod"), "w").write(
        "module github.com/goplus/llgo/runtime/xverif/c06\n\ngo 1.23\n\n"
        "require github.com/goplus/llgo/runtime v0.0.0\n"
        "replace github.com/goplus/llgo/runtime => %s/runtime\n" % repo)
    gs = os.path.join(repo, "runtime", "go.sum")
    if os.path.exists(gs):
        shutil.copy(gs, os.path.join(d, "go.sum"))
    for f in COPIED:
        p = os.path.join(repo, RT, f)
        if not os.path.exists(p):
            return d, "missing source file " + p
        src = open(p).read()
        src2, n = re.subn(r"^package runtime\s*$", "package rt", src, count=1, flags=re.M)
        if n != 1:
            return d, "no package clause in " + f
        # maps.clone / maps.keys / maps.values are pushed into package maps by linkname: the
        # directive (not the function) is dropped, otherwise the Go linker sees two definitions
        src2 = re.sub(r"^//go:linkname \w+ maps\.\w+\s*$", "//", src2, flags=re.M)
        open(os.path.join(pk, f), "w").write(src2)
    parts = ["package rt\n\n// extracted verbatim from the working tree by props/C06/modbuild.py\n\nimport (\n"
             "\t\"unsafe\"\n\n\t\"github.com/goplus/llgo/runtime/abi\"\n"
             "\t\"github.com/goplus/llgo/runtime/internal/runtime/math\"\n)\n\n"
             "var _ = abi.Invalid\nvar _ = math.MulUintptr\nvar _ unsafe.Pointer\n\n"]
    cache = {}
    for f, kind, name in EXTRACT:
        if f not in cache:
            cache[f] = _strip_block_comments(open(os.path.join(repo, RT, f)).read())
        got = extract(cache[f], kind, name)
        if not got:
            return d, "cannot extract %s %s from %s" % (kind, name, f)
        parts.append("// from %s\n" % f + "\n".join(got) + "\n")
    open(os.path.join(pk, "zz_extracted.go"), "w").write("".join(parts))
    shutil.copy(os.path.join(harness_dir, "stub.go"), os.path.join(pk, "zz_stub.go"))
    for f in os.listdir(harness_dir):
        if f.endswith("_test.go"):
            shutil.copy(os.path.join(harness_dir, f), os.path.join(pk, "zz_" + f))
    return d, None
