package blocks

// Injected by /verif (go test -overlay); not part of the repository.
// Builds go/ssa for a generated source file exactly as internal/build does
// (SanityCheckFunctions|InstantiateGenerics), runs the real Infos on every
// function and lists the defer statements in the order cl compiles them.

import (
	"encoding/json"
	"go/ast"
	"go/importer"
	"go/parser"
	"go/token"
	"go/types"
	"os"
	"testing"

	llssa "github.com/goplus/llgo/ssa"
	"golang.org/x/tools/go/ssa"
	"golang.org/x/tools/go/ssa/ssautil"
)

type vdefer struct {
	Line    int    `json:"line"`
	Kind    string `json:"kind"`
	HasNode bool   `json:"has_node"`
	Block   int    `json:"block"`
	// a range-over-func call whose yield body defers: one drain statement in the
	// owner for all defer statements of the body (their lines)
	Lines []int `json:"lines,omitempty"`
}

// stackDeferLines lists the defer statements of a range-over-func yield function
// (and of the yield functions nested in it) that push to the owner's explicit
// defer stack - the condition under which cl emits DeferStackDrain after the call.
func stackDeferLines(fset *token.FileSet, fn *ssa.Function, seen map[*ssa.Function]bool) (lines []int) {
	if fn == nil || seen[fn] {
		return
	}
	seen[fn] = true
	for _, b := range fn.Blocks {
		for _, ins := range b.Instrs {
			if d, ok := ins.(*ssa.Defer); ok && d.DeferStack != nil {
				lines = append(lines, fset.Position(d.Pos()).Line)
			}
		}
	}
	for _, c := range fn.AnonFuncs {
		lines = append(lines, stackDeferLines(fset, c, seen)...)
	}
	return
}

type vfunc struct {
	Name   string    `json:"name"`
	Order  []int     `json:"order"`
	Kinds  []string  `json:"kinds"`
	Succs  [][]int   `json:"succs"`
	Defers []vdefer  `json:"defers"`
	// defer statements of the function itself that push to its explicit defer
	// stack (go/ssa gives every defer of a function with deferring
	// range-over-func bodies a DeferStack): cl lowers them with DeferTo, which
	// pushes a node and registers no replay statement of its own
	StackLines []int `json:"stack_lines,omitempty"`
}

func kindName(k llssa.DoAction) string {
	switch k {
	case llssa.DeferAlways:
		return "Always"
	case llssa.DeferInCond:
		return "Cond"
	case llssa.DeferInLoop:
		return "InLoop"
	}
	return "?"
}

func TestVerif(t *testing.T) {
	src := os.Getenv("VERIF_SRC")
	fset := token.NewFileSet()
	f, err := parser.ParseFile(fset, src, nil, parser.ParseComments)
	if err != nil {
		t.Fatal(err)
	}
	pkg := types.NewPackage("main", "main")
	spkg, _, err := ssautil.BuildPackage(&types.Config{Importer: importer.Default()}, fset, pkg, []*ast.File{f},
		ssa.SanityCheckFunctions|ssa.InstantiateGenerics)
	if err != nil {
		t.Fatal(err)
	}
	out, err := os.Create(os.Getenv("VERIF_OUT"))
	if err != nil {
		t.Fatal(err)
	}
	defer out.Close()
	enc := json.NewEncoder(out)
	var visit func(fn *ssa.Function)
	visit = func(fn *ssa.Function) {
		if len(fn.Blocks) == 0 {
			return
		}
		infos := Infos(fn.Blocks)
		vf := vfunc{Name: fn.Name()}
		for _, b := range fn.Blocks {
			vf.Kinds = append(vf.Kinds, kindName(infos[b.Index].Kind))
			ss := []int{}
			for _, s := range b.Succs {
				ss = append(ss, s.Index)
			}
			vf.Succs = append(vf.Succs, ss)
		}
		for i := 0; i >= 0; i = infos[i].Next {
			vf.Order = append(vf.Order, i)
			for _, ins := range fn.Blocks[i].Instrs {
				if d, ok := ins.(*ssa.Defer); ok && d.DeferStack != nil {
					vf.StackLines = append(vf.StackLines, fset.Position(d.Pos()).Line)
				} else if ok {
					k := infos[i].Kind
					_, closure := d.Call.Value.(*ssa.MakeClosure)
					_, static := d.Call.Value.(*ssa.Function)
					has := k == llssa.DeferInLoop || closure || !static || len(d.Call.Args) > 0
					vf.Defers = append(vf.Defers, vdefer{Line: fset.Position(d.Pos()).Line, Kind: kindName(k), HasNode: has, Block: i})
				}
				if c, ok := ins.(*ssa.Call); ok {
					var lines []int
					for _, arg := range c.Call.Args {
						if mc, ok := arg.(*ssa.MakeClosure); ok {
							if yf, ok := mc.Fn.(*ssa.Function); ok && yf.Synthetic == "range-over-func yield" {
								lines = append(lines, stackDeferLines(fset, yf, map[*ssa.Function]bool{})...)
							}
						}
					}
					if len(lines) > 0 {
						vf.Defers = append(vf.Defers, vdefer{Line: -1, Kind: "InLoop", HasNode: true, Block: i, Lines: lines})
					}
				}
			}
		}
		enc.Encode(vf)
		for _, an := range fn.AnonFuncs {
			_ = an
		}
	}
	for _, m := range spkg.Members {
		if fn, ok := m.(*ssa.Function); ok {
			visit(fn)
		}
	}
}
