package blocks

// Injected by /verif (go test -overlay); not part of the repository.
// Builds go/ssa for a generated source file exactly as internal/build does
// (SanityCheckFunctions|InstantiateGenerics), runs the real Infos on every
// function and lists the defer statements in the order cl compiles them.

import (
	"encoding/json"
	"go/ast"
	"go/importer"
	"go/parser"
	"go/token"
	"go/types"
	"os"
	"testing"

	llssa "github.com/goplus/llgo/ssa"
	"golang.org/x/tools/go/ssa"
	"golang.org/x/tools/go/ssa/ssautil"
)

type vdefer struct {
	Line    int    `json:"line"`
	Kind    string `json:"kind"`
	HasNode bool   `json:"has_node"`
	Block   int    `json:"block"`
}

type vfunc struct {
	Name   string    `json:"name"`
	Order  []int     `json:"order"`
	Kinds  []string  `json:"kinds"`
	Succs  [][]int   `json:"succs"`
	Defers []vdefer  `json:"defers"`
}

func kindName(k llssa.DoAction) string {
	switch k {
	case llssa.DeferAlways:
		return "Always"
	case llssa.DeferInCond:
		return "Cond"
	case llssa.DeferInLoop:
		return "InLoop"
	}
	return "?"
}

func TestVerif(t *testing.T) {
	src := os.Getenv("VERIF_SRC")
	fset := token.NewFileSet()
	f, err := parser.ParseFile(fset, src, nil, parser.ParseComments)
	if err != nil {
		t.Fatal(err)
	}
	pkg := types.NewPackage("main", "main")
	spkg, _, err := ssautil.BuildPackage(&types.Config{Importer: importer.Default()}, fset, pkg, []*ast.File{f},
		ssa.SanityCheckFunctions|ssa.InstantiateGenerics)
	if err != nil {
		t.Fatal(err)
	}
	out, err := os.Create(os.Getenv("VERIF_OUT"))
	if err != nil {
		t.Fatal(err)
	}
	defer out.Close()
	enc := json.NewEncoder(out)
	var visit func(fn *ssa.Function)
	visit = func(fn *ssa.Function) {
		if len(fn.Blocks) == 0 {
			return
		}
		infos := Infos(fn.Blocks)
		vf := vfunc{Name: fn.Name()}
		for _, b := range fn.Blocks {
			vf.Kinds = append(vf.Kinds, kindName(infos[b.Index].Kind))
			ss := []int{}
			for _, s := range b.Succs {
				ss = append(ss, s.Index)
			}
			vf.Succs = append(vf.Succs, ss)
		}
		for i := 0; i >= 0; i = infos[i].Next {
			vf.Order = append(vf.Order, i)
			for _, ins := range fn.Blocks[i].Instrs {
				if d, ok := ins.(*ssa.Defer); ok {
					k := infos[i].Kind
					_, closure := d.Call.Value.(*ssa.MakeClosure)
					_, static := d.Call.Value.(*ssa.Function)
					has := k == llssa.DeferInLoop || closure || !static || len(d.Call.Args) > 0
					vf.Defers = append(vf.Defers, vdefer{Line: fset.Position(d.Pos()).Line, Kind: kindName(k), HasNode: has, Block: i})
				}
			}
		}
		enc.Encode(vf)
		for _, an := range fn.AnonFuncs {
			_ = an
		}
	}
	for _, m := range spkg.Members {
		if fn, ok := m.(*ssa.Function); ok {
			visit(fn)
		}
	}
}
