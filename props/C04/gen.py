"""Generator of defer/panic/recover test programs for C04 (all choices from one PRNG)."""
import random

PRELUDE = '''package main

func dcall(fn, j, p int) { println("call", fn, j, p) }

func dpanic(fn, j, p int) {
	println("call", fn, j, p)
	panic("again")
}

func drecover(fn, j, p int) {
	println("call", fn, j, p)
	r := recover()
	println("recovered", r != nil)
}

func helper(in uint64, b uint) {
	if in&(1<<b) != 0 {
		println("bodypanic")
		panic("helper")
	}
}

func seqN(n int) func(func(int) bool) {
	return func(yield func(int) bool) {
		for i := 0; i < n; i++ {
			if !yield(i) {
				return
			}
		}
	}
}

func try(fn int, in uint64, f func(uint64) int) {
	defer func() {
		r := recover()
		println("end", fn, in, r != nil)
	}()
	println("begin", fn, in)
	v := f(in)
	println("ret", fn, v)
}
'''


class FnGen:
    def __init__(self, rng, fn, lineno):
        self.rng, self.fn = rng, fn
        self.lines = []
        self.line0 = lineno          # line number of the first emitted line
        self.nbits = 0
        self.ndefer = 0
        self.defers = {}             # j -> {"line":..., "variant":...}
        self.extra = []              # argless per-site functions
        self.loopvars = 0
        self.in_rf = False           # inside a range-over-func body
        self.own_defers = 0          # defer statements outside range-over-func bodies
        self.has_rf = False

    def emit(self, ind, s):
        self.lines.append("\t" * ind + s)
        return self.line0 + len(self.lines) - 1

    def bit(self):
        b = self.nbits
        self.nbits += 1
        return b

    def defer_stmt(self, ind, loopvar):
        j = self.ndefer
        self.ndefer += 1
        r = self.rng.random()
        if self.in_rf:
            r *= 0.80                # plain variants only: the statement position is shared by all defers of the body
        else:
            self.own_defers += 1
        fn = self.fn
        if r < 0.40:
            p = "%d+%s" % (100 * (j + 1), loopvar) if loopvar else str(7 + j)
            self.emit(ind, 'println("reg", %d, %d, %s)' % (fn, j, p))
            ln = self.emit(ind, "defer dcall(%d, %d, %s)" % (fn, j, p))
            v = "arg"
        elif r < 0.62:
            self.emit(ind, 'println("reg", %d, %d, -1)' % (fn, j))
            ln = self.emit(ind, "defer d_%d_%d()" % (fn, j))
            self.extra.append('func d_%d_%d() { println("call", %d, %d, -1) }' % (fn, j, fn, j))
            v = "argless"
        elif r < 0.80:
            self.emit(ind, 'println("reg", %d, %d, -2)' % (fn, j))
            ln = self.emit(ind, 'defer func() { println("call", %d, %d, -2); res = res*2 + %d }()' % (fn, j, j + 1))
            v = "closure"
        elif r < 0.90:
            p = str(50 + j)
            self.emit(ind, 'println("reg", %d, %d, %s)' % (fn, j, p))
            ln = self.emit(ind, "defer drecover(%d, %d, %s)" % (fn, j, p))
            v = "arg"
            self.behaviour = getattr(self, "behaviour", {})
            self.behaviour[j] = "DRecover"
        else:
            p = str(60 + j)
            self.emit(ind, 'println("reg", %d, %d, %s)' % (fn, j, p))
            ln = self.emit(ind, "defer dpanic(%d, %d, %s)" % (fn, j, p))
            v = "arg"
            self.behaviour = getattr(self, "behaviour", {})
            self.behaviour[j] = "DPanic"
        self.defers[j] = {"line": ln, "variant": v}

    def block(self, ind, depth, loopvar, n):
        for _ in range(n):
            r = self.rng.random()
            nested_ok = depth < 2
            if r < 0.30 and nested_ok:
                self.emit(ind, "if in&(1<<%d) != 0 {" % self.bit())
                self.block(ind + 1, depth + 1, loopvar, self.rng.randrange(1, 4))
                if self.rng.random() < 0.35:
                    self.emit(ind, "} else {")
                    self.block(ind + 1, depth + 1, loopvar, self.rng.randrange(1, 3))
                self.emit(ind, "}")
            elif r < 0.56 and r >= 0.48 and nested_ok and not self.in_rf:
                # range-over-func: the defers of the body belong to this function and run when it returns
                lv = "r%d" % self.loopvars
                self.loopvars += 1
                b = self.bit()
                self.bit()
                self.emit(ind, "for %s := range seqN(int(in>>%d) & 3) {" % (lv, b))
                self.emit(ind + 1, "_ = %s" % lv)
                self.in_rf = True
                self.has_rf = True
                n0 = self.ndefer
                self.block(ind + 1, depth + 1, lv, self.rng.randrange(1, 4))
                if self.ndefer == n0:
                    self.defer_stmt(ind + 1, lv)
                self.in_rf = False
                self.emit(ind, "}")
            elif r < 0.48 and nested_ok:
                lv = "i%d" % self.loopvars
                self.loopvars += 1
                b = self.bit()
                self.bit()
                self.emit(ind, "for %s := 0; %s < int(in>>%d)&3; %s++ {" % (lv, lv, b, lv))
                self.block(ind + 1, depth + 1, lv, self.rng.randrange(1, 4))
                self.emit(ind, "}")
            else:
                q = self.rng.random()
                if q < 0.50:
                    self.defer_stmt(ind, loopvar)
                elif q < 0.64:
                    self.emit(ind, "if in&(1<<%d) != 0 {" % self.bit())
                    self.emit(ind + 1, 'println("bodypanic")')
                    self.emit(ind + 1, 'panic("p")')
                    self.emit(ind, "}")
                elif q < 0.76:
                    self.emit(ind, "helper(in, %d)" % self.bit())
                elif q < 0.86:
                    self.emit(ind, "if in&(1<<%d) != 0 {" % self.bit())
                    self.emit(ind + 1, "return %d" % self.rng.randrange(2, 9))
                    self.emit(ind, "}")
                else:
                    self.emit(ind, "res += %d" % self.rng.randrange(1, 5))

    def gen(self):
        self.emit(0, "func f%d(in uint64) (res int) {" % self.fn)
        self.block(1, 0, None, self.rng.randrange(3, 8))
        if self.own_defers == 0:
            # (a function whose only defers sit in range-over-func bodies is the listed finding
            # rangefunc-only-defers-lose-named-result-changes: probed separately)
            self.defer_stmt(1, None)
        self.emit(1, "return res + 1")
        self.emit(0, "}")
        self.emit(0, "")
        return self


def gen_program(seed, nfuncs=24, runs_per_fn=6):
    rng = random.Random(seed)
    lines = PRELUDE.splitlines()
    fns = []
    for fn in range(nfuncs):
        g = FnGen(rng, fn, len(lines) + 1).gen()
        lines += g.lines
        fns.append(g)
    for g in fns:
        lines += g.extra
    lines.append("")
    lines.append("func main() {")
    runs = []
    for g in fns:
        ins = {0, (1 << max(g.nbits, 1)) - 1}
        while len(ins) < min(runs_per_fn, 1 << max(g.nbits, 1)):
            ins.add(rng.getrandbits(max(g.nbits, 1)))
        for v in sorted(ins):
            lines.append("\ttry(%d, %d, f%d)" % (g.fn, v, g.fn))
            runs.append((g.fn, v))
    lines.append("}")
    return "\n".join(lines) + "\n", fns, runs


# fixed probes outside the generated grammar
PROBES = r'''package main

import (
	"os"
	"runtime"
	_ "sync"
	_ "sync/atomic"
)

// an unrecovered panic raised by a deferred call while runtime.Goexit is unwinding must crash the
// program (exit status 2) after the remaining deferred calls have run
func goexitPanic() {
	never := make(chan int)
	go func() {
		defer func() { println("last deferred call runs") }()
		defer func() { panic("boom while exiting") }()
		runtime.Goexit()
	}()
	<-never
	println("PROGRAM SURVIVED an unrecovered panic")
}

func inner() { println("inner recover", recover() != nil) }

func nested() {
	defer func() {
		// recover() here is NOT called directly by the deferred function
		func() { println("nested recover", recover() != nil) }()
	}()
	panic("n")
}

func direct() {
	defer func() { println("direct recover", recover() != nil) }()
	panic("d")
}

func helperRecover() {
	defer inner()
	panic("h")
}

func noPanicRecover() {
	defer func() { println("no panic recover", recover() != nil) }()
}

func replace() (r any) {
	defer func() { r = recover() }()
	defer func() { panic("second") }()
	panic("first")
}

func named() (x int) {
	defer func() { x *= 3 }()
	x = 2
	return x + 5
}

func argsEvaluatedAtDefer() {
	v := 1
	defer println("deferred arg", v)
	v = 2
	println("now", v)
}

func loopThenDefer(n int) {
	for i := 0; i < n; i++ {
		defer println("loop", i)
	}
	defer println("after loop")
}

// defers of a nested loop, then an unconditional defer after the loops
func nestedLoopThenDefer(n int) {
	for i := 0; i < n; i++ {
		for j := 0; j < n; j++ {
			defer println("loop", i, j)
		}
	}
	defer println("after loops")
}

func mayPanic(b bool) {
	if b {
		panic("mp")
	}
}

func hNever() { println("h ran though never deferred") }

func alwaysUnreached(b bool) {
	defer println("first")
	mayPanic(b)
	defer hNever()
}

func arglessMid() { println("argless mid") }

func drainCross(n int, c bool, m int) {
	for i := 0; i < n; i++ {
		defer println("loop1", i)
	}
	if c {
		defer arglessMid()
	}
	for j := 0; j < m; j++ {
		defer println("loop2", j)
	}
}

func seqN(n int) func(func(int) bool) {
	return func(yield func(int) bool) {
		for i := 0; i < n; i++ {
			if !yield(i) {
				return
			}
		}
	}
}

// defers inside range-over-func bodies belong to the enclosing function
func rangeFuncDefers(n int) {
	defer println("plain first")
	for i := range seqN(n) {
		defer println("rf1", i)
	}
	for i := range seqN(2) {
		defer println("rf2", i)
	}
	defer println("plain last")
}

func rangeFuncNested() {
	for i := range seqN(2) {
		for j := range seqN(2) {
			defer println("nest", i, j)
		}
	}
	defer argless2()
}

func argless2() { println("argless2") }

func rangeFuncPanic() {
	for i := range seqN(3) {
		defer println("rfp", i)
		if i == 1 {
			panic("in body")
		}
	}
}

// the only defers of these functions are registered in range-over-func bodies and change the named result
func rfNamed1() (r int) {
	for range seqN(2) {
		defer func() { r += 10 }()
	}
	return 1
}

func rfNamed2() (r int) {
	for i := range seqN(3) {
		defer func() { r = r*10 + i }()
		if i == 1 {
			return 7
		}
	}
	return 1
}

// the same with a defer of the function itself
func rfNamed3() (r int) {
	defer func() { r += 100 }()
	for range seqN(2) {
		defer func() { r += 10 }()
	}
	return 1
}

func runtimeFault() (ok bool) {
	defer func() { ok = recover() != nil }()
	var m map[string]int
	m["x"] = 1
	return false
}

func goexitProbe() {
	done := make(chan int)
	go func() {
		defer func() { done <- 1 }()
		defer println("goexit defer 2")
		func() {
			defer println("goexit defer inner")
			runtime.Goexit()
		}()
		println("not reached")
	}()
	<-done
	println("goexit done")
}

func wrap(name string, f func()) {
	defer func() { println(name, "outer recovered", recover() != nil) }()
	f()
}

func main() {
	if len(os.Args) > 1 && os.Args[1] == "goexitpanic" {
		goexitPanic()
		return
	}
	wrap("nested", nested)
	wrap("direct", direct)
	wrap("helperRecover", helperRecover)
	wrap("noPanicRecover", noPanicRecover)
	wrap("replace", func() { r := replace(); s, _ := r.(string); println("replace got", s) })
	wrap("named", func() { println("named", named()) })
	wrap("argsEvaluatedAtDefer", argsEvaluatedAtDefer)
	wrap("loopThenDefer", func() { loopThenDefer(3) })
	wrap("nestedLoopThenDefer", func() { nestedLoopThenDefer(2) })
	wrap("alwaysUnreached", func() { alwaysUnreached(true) })
	wrap("alwaysReached", func() { alwaysUnreached(false) })
	wrap("drainCross", func() { drainCross(2, true, 0) })
	wrap("drainCrossSep", func() { drainCross(2, false, 2) })
	wrap("rangeFuncDefers", func() { rangeFuncDefers(3) })
	wrap("rangeFuncDefers0", func() { rangeFuncDefers(0) })
	wrap("rangeFuncNested", rangeFuncNested)
	wrap("rangeFuncPanic", rangeFuncPanic)
	wrap("rfNamedWithOwnDefer", func() { println("rfNamed3", rfNamed3()) })
	wrap("rfNamedOnly", func() { println("rfNamed", rfNamed1(), rfNamed2()) })
	wrap("runtimeFault", func() { println("runtimeFault", runtimeFault()) })
	wrap("goexit", goexitProbe)
}
'''
