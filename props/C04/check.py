"""C04 - defer, panic, recover and Goexit ordering.

Model: coq/theories/C04 (the defer frame machine of ssa/eh.go).  Tie: generated
functions (unconditional / conditional / loop defers in any nesting, with
arguments, without, closures changing named results, panics, re-panics,
recovers, early returns, helper-frame panics) are (1) compiled by llgo and by go
and their traces compared (property oracle), (2) passed through the REAL
cl/blocks.Infos by an overlay test that lists every defer statement in compile
order with its kind, and (3) the Coq machine, fed that shape and the executed
defer statements observed in the run, must predict the calls llgo made."""
import os, re, json, sys, collections
import vlib, e2e
sys.path.insert(0, os.path.dirname(os.path.abspath(__file__)))
import gen

H = os.path.dirname(os.path.abspath(__file__))

MAIN_SEL = '''
func atoi(s string) int {
	n := 0
	for _, c := range s {
		n = n*10 + int(c-'0')
	}
	return n
}
'''


def parse_runs(text):
    """{(fn, in): {"regs": [(j,p)], "calls": [(j,p)], "lines": [...]}} in order"""
    runs = collections.OrderedDict()
    cur = None
    for ln in text.splitlines():
        t = ln.split()
        if not t:
            continue
        if t[0] == "begin" and len(t) == 3 and t[1].isdigit() and t[2].isdigit():
            cur = {"regs": [], "calls": [], "lines": [], "ended": False, "bodypanic": False, "recs": [], "endflag": None}
            runs[(int(t[1]), int(t[2]))] = cur
            continue
        if cur is None:
            continue
        cur["lines"].append(ln)
        def num(x):
            try:
                return int(x)
            except ValueError:
                return -999999          # garbage printed by a miscompiled program
        if t[0] == "reg" and len(t) == 4:
            cur["regs"].append((num(t[2]), num(t[3])))
        elif t[0] == "call" and len(t) == 4:
            cur["calls"].append((num(t[2]), num(t[3])))
        elif t[0] == "bodypanic":
            cur["bodypanic"] = True
        elif t[0] == "recovered" and len(t) == 2:
            cur["recs"].append(t[1] == "true")
        elif t[0] == "end":
            cur["ended"] = True
            cur["endflag"] = (t[-1] == "true")
            cur = None
    return runs


def coq_shape(sh):
    return "[" + "; ".join("{| sk := %s; snode := %s |}" % (d["kind"], "true" if d["has_node"] else "false") for d in sh) + "]"


def positions(sh, line_of, stack_lines=()):
    """defer statement j of the source -> position of its replay statement in compile order; all defer
    statements of a range-over-func body share the position of the drain registered after the call, and
    the function's own defers that push to the explicit stack (no replay statement of their own) are
    attributed to the first drain"""
    pos_of = {}
    first_drain = None
    for pos, d in enumerate(sh):
        if d.get("lines") and first_drain is None:
            first_drain = pos
        for ln in [d["line"]] + (d.get("lines") or []):
            if ln in line_of:
                pos_of[line_of[ln][1]] = pos
    if first_drain is not None:
        for ln in stack_lines:
            if ln in line_of:
                pos_of[line_of[ln][1]] = first_drain
    return pos_of


def classify(sh, pos_of, regs):
    """which premise of defers_lifo_exactly_once does this run violate?"""
    executed = [pos_of[j] for j, _ in regs if j in pos_of]
    # effective kinds: only statement 0 may stay unconditional (ssa.Builder.Defer)
    kinds = [d["kind"] if (i == 0 or d["kind"] != "Always") else "Cond" for i, d in enumerate(sh)]
    # the frame is created where an unconditional first-COMPILED statement stands; a statement that cl/blocks
    # compiles later but that executes earlier (a nested loop before the straight-line tail) then runs without a frame
    if executed and kinds and kinds[0] == "Always" and executed[0] != 0:
        return "defer-executed-before-frame-creating-defer"
    for i, k in enumerate(kinds):
        if k == "Always" and i not in executed:
            if i == 0 and not executed:
                return None      # the frame is created at an unconditional first statement: no frame, nothing replayed
            return "defer-always-replayed-though-never-reached"
    # groups: maximal runs of InLoop statements in compile order
    grp, g = [], 0
    for i, k in enumerate(kinds):
        if i > 0 and not (k == "InLoop" and kinds[i - 1] == "InLoop"):
            g += 1
        grp.append(g)
    for a in range(len(executed)):
        for b in range(a + 1, len(executed)):
            if grp[executed[a]] > grp[executed[b]]:
                return "defer-lifo-broken-by-block-compile-order"
    # an executed argless non-loop statement e with executed loop nodes below it and ANY loop
    # statement above it: that statement's drain pops the lower nodes before e runs, unless an
    # executed node-carrying non-loop statement separates them on the stack
    for e in executed:
        if kinds[e] != "InLoop" and not sh[e]["has_node"]:
            lower = [x for x in executed if kinds[x] == "InLoop" and x < e]
            upper = [i for i, k in enumerate(kinds) if k == "InLoop" and i > e]
            if lower and upper:
                lo, up = max(lower), min(upper)
                sep = any(kinds[d] != "InLoop" and sh[d]["has_node"] and lo < d < up for d in executed)
                if not sep:
                    return "defer-loop-drain-crosses-argless-defer"
    return None


def run(ck):
    ck.trusted = ["Coq 8.16.1 kernel", "program generator props/C04/gen.py", "overlay harness in cl/blocks (go/ssa built as internal/build does)",
                  "e2e shims (LLVM 14, GNU ld, -O0)"]
    ck.assumptions = ["sigsetjmp/siglongjmp register and stack effects (returns_twice) are not modelled; observed at -O0 only",
                      "the model is fed the executed defer statements observed in the run; it predicts the deferred calls"]
    ck.coq_build("C04")
    ck.coq_props("LLGoV.C04.Props", "theories/C04/Props.v")
    ck.phase("coq built")
    L = e2e.LLGo(ck)
    if not L.ok:
        ck.correspondence_broken("llgo-build", L.buildlog[-2000:])
        return ck.finish()
    nprog = {"quick": 2, "thorough": 12}[ck.tier]
    nfun = {"quick": 24, "thorough": 40}[ck.tier]
    total_runs = 0
    interesting = 0
    cases = []        # coq terms
    case_meta = []
    ocases, ometa = [], []
    kinds_seen = collections.Counter()
    samples = []
    for pi in range(nprog):
        seed = ck.seed * 1000 + pi
        src, fns, runs = gen.gen_program(seed, nfuncs=nfun)
        # line map of the defer statements
        lines = src.splitlines()
        line_of = {}
        for i, l in enumerate(lines):
            m = re.match(r"\s*defer (?:dcall|drecover|dpanic)\((\d+), (\d+),", l) or re.match(r"\s*defer d_(\d+)_(\d+)\(\)", l) or \
                re.match(r'\s*defer func\(\) \{ println\("call", (\d+), (\d+),', l)
            if m:
                line_of[i + 1] = (int(m.group(1)), int(m.group(2)))
        pd = os.path.join(ck.work, "prog%d" % pi)
        e2e.write_module(pd, {"main.go": src})
        r1, o1 = L.build(pd, os.path.join(pd, "p_llgo"), timeout=1500)
        r2, o2 = e2e.go_build(pd, os.path.join(pd, "p_go"))
        if r1 != 0 or r2 != 0:
            ck.correspondence_broken("e2e-build-prog%d" % pi, (o1 + o2)[-1500:])
            continue
        # shapes from the real Infos
        hout = os.path.join(ck.work, "infos%d.jsonl" % pi)
        rc, log = ck.go_test_overlay("cl/blocks", {"zz_verif_test.go": os.path.join(H, "harness", "infos_verif_test.go")},
                                     env=dict(e2e.tc_env(L.cache), VERIF_SRC=os.path.join(pd, "main.go"), VERIF_OUT=hout),
                                     tags="llvm14,verif", extra_overlay=json.load(open(L.ov))["Replace"])
        if rc != 0 or not os.path.exists(hout):
            ck.correspondence_broken("blocks-harness", log[-1500:])
            continue
        shapes = {}
        for l in open(hout):
            vf = json.loads(l)
            m = re.fullmatch(r"f(\d+)", vf["name"])
            if m:
                shapes[int(m.group(1))] = vf
        a = L.run_bin(os.path.join(pd, "p_llgo"), timeout=60)
        b = e2e.run_plain(os.path.join(pd, "p_go"), timeout=300)
        go_runs = parse_runs(b[2])
        ll_runs = parse_runs(a[2])
        crashed = a[0] != 0 or len(ll_runs) < len(go_runs) or any(not r["ended"] for r in ll_runs.values())
        tries = 0
        while crashed and tries < 4:
            # the run after the last completed one killed the process: drop it and rebuild with the rest
            tries += 1
            done = [k for k, v in ll_runs.items() if v["ended"]]
            keys = list(go_runs.keys())
            nxt = len(done) + 1 if len(done) < len(keys) else len(keys)
            if len(done) < len(keys):
                kfn, kin = keys[len(done)]
                ksh = shapes.get(kfn, {}).get("defers", [])
                kpos = positions(ksh, line_of, shapes.get(kfn, {}).get("stack_lines") or ())
                kcls = classify(ksh, kpos, go_runs[keys[len(done)]]["regs"]) if ksh else None
                ck.violation(kcls if kcls in ("defer-lifo-broken-by-block-compile-order", "defer-executed-before-frame-creating-defer") else "defer-run-kills-process",
                             "run f%d(%d) (generator seed %d) kills the llgo-compiled process (rc=%s)" % (kfn, kin, seed, a[0]),
                             {"seed": seed, "run": keys[len(done)], "stderr_tail": a[2][-300:], "cls": kcls})
            rest = keys[nxt:]
            if not rest:
                break
            body = "".join("\ttry(%d, %d, f%d)\n" % (f, v, f) for f, v in rest)
            src2 = src[:src.index("func main() {")] + "func main() {\n" + body + "}\n"
            pd2 = os.path.join(ck.work, "prog%d_r%d" % (pi, tries))
            e2e.write_module(pd2, {"main.go": src2})
            rr, oo = L.build(pd2, os.path.join(pd2, "p_llgo"), timeout=1500)
            if rr != 0:
                break
            a = L.run_bin(os.path.join(pd2, "p_llgo"), timeout=45)
            more = parse_runs(a[2])
            ll_runs = collections.OrderedDict((k, v) for k, v in ll_runs.items() if v["ended"])
            ll_runs.update(more)
            crashed = a[0] != 0 or any(not r["ended"] for r in more.values())
        for key, gr in go_runs.items():
            total_runs += 1
            fn, inp = key
            vf = shapes.get(fn)
            lr = ll_runs.get(key)
            if vf is None:
                ck.correspondence_broken("shape-missing", "f%d" % fn)
                continue
            sh = vf["defers"]
            pos_of = positions(sh, line_of, vf.get("stack_lines") or ())
            j_of = {}
            for k, v in pos_of.items():
                j_of.setdefault(v, k)
            for d in sh:
                kinds_seen[("RangeFuncDrain" if d.get("lines") else d["kind"]) + ("+node" if d["has_node"] else "")] += 1
            if lr is None or not lr.get("ended", True):
                # the process died in (or before) this run: classify by the defers the reference run executed.
                # When the run violates the compile-order premise a foreign argument node is decoded with
                # another statement's layout, which is memory-unsafe (garbage values or a crash).
                cls0 = classify(sh, pos_of, gr["regs"])
                key0 = cls0 if cls0 in ("defer-lifo-broken-by-block-compile-order", "defer-executed-before-frame-creating-defer") else "defer-run-missing"
                ck.violation(key0, "run f%d(%d) (generator seed %d) produced no complete trace under llgo; Go's deferred calls: %s" % (fn, inp, seed, gr["calls"][:8]),
                             {"seed": seed, "fn": fn, "in": inp, "shape": sh, "go_regs": gr["regs"], "cls": cls0})
                continue
            if len(gr["regs"]) >= 2:
                interesting += 1
            # model prediction for the executed statements llgo reports
            regs = [(pos_of[j], p) for j, p in lr["regs"] if j in pos_of]
            obs = [(pos_of.get(j, 999), max(p, -9)) for j, p in lr["calls"]]
            term = "((%s, [%s]), [%s])" % (
                coq_shape(sh),
                "; ".join("(%d%%nat, %d%%N)" % (pos, p + 10) for pos, p in regs),
                "; ".join("(%d%%nat, %s)" % (pos, "Some %d%%N" % (p + 10) if (pos < len(sh) and sh[pos]["has_node"]) else "None") for pos, p in obs))
            cases.append(term)
            beh = getattr(fns[fn], "behaviour", {})
            kinds = "[" + "; ".join(beh.get(j_of.get(pos, -1), "DPlain") for pos in range(len(sh))) + "]"
            # (the outcome model has one behaviour per replay statement: functions whose recovering / re-panicking
            # defers share a drain statement with others are compared on the call sequence and with go only)
            shared = any(d.get("lines") for d in sh) and bool(beh)
            if lr.get("endflag") is not None and not shared:
                ocases.append("((%s, %s, [%s], %s), ([%s], %s))" % (
                    coq_shape(sh), kinds, "; ".join("(%d%%nat, %d%%N)" % (pos, p + 10) for pos, p in regs),
                    "true" if lr["bodypanic"] else "false",
                    "; ".join("true" if x else "false" for x in lr["recs"]), "true" if lr["endflag"] else "false"))
                ometa.append({"seed": seed, "fn": fn, "in": inp, "recs": lr["recs"], "end_recovered": lr["endflag"], "bodypanic": lr["bodypanic"],
                              "cls": classify(sh, pos_of, lr["regs"])})
            same = lr["lines"] == gr["lines"]
            case_meta.append({"seed": seed, "fn": fn, "in": inp, "same_as_go": same, "shape": sh, "regs": lr["regs"],
                              "llgo_calls": lr["calls"], "go_calls": gr["calls"],
                              "cls": None if same else classify(sh, pos_of, lr["regs"])})
            if len(samples) < 2 and len(regs) >= 3:
                samples.append({"function": "f%d" % fn, "in": inp, "shape": [(d["kind"], d["has_node"]) for d in sh], "regs": lr["regs"], "calls": lr["calls"]})
    ck.phase("programs run")
    # model vs llgo
    hdr = "From LLGoV Require Import C04.Model.\nLocal Open Scope N_scope.\n"
    model = "(fun c => map printed (machine_frame (fst c) (snd c)))"
    eqb = "list_eqb (prod_eqb Nat.eqb (option_eqb N.eqb))"
    bad = set(ck.coq_mismatches(hdr, cases, model, eqb, "c04_machine")) if cases else set()
    nknown = collections.Counter()
    for i, m in enumerate(case_meta):
        if m["same_as_go"]:
            if i in bad:
                ck.correspondence_broken("C04.machine", {"case": m})
            continue
        # llgo differs from Go: property violation; known only if the faithful model explains it
        # a premise violation explains the difference: exactly (model agrees) for the drain class; for the
        # compile-order class the code decodes a foreign node (memory-unsafe), so payloads cannot be predicted
        key = m["cls"] if (m["cls"] and (i not in bad or m["cls"] in ("defer-lifo-broken-by-block-compile-order", "defer-executed-before-frame-creating-defer"))) else "defer-trace-differs"
        nknown[key] += 1
        ck.violation(key, "f%d(%d) (generator seed %d): deferred calls under llgo %s, Go %s" % (m["fn"], m["in"], m["seed"], m["llgo_calls"][:8], m["go_calls"][:8]), m)
    # recover / re-panic outcomes predicted by the model from the executed defers and the body's panic
    if ocases:
        obad = ck.coq_mismatches(hdr, ocases, "(fun c => machine_frame_outcome (fst (fst (fst c))) (snd (fst (fst c))) (snd (fst c)) (snd c))",
                                 "prod_eqb (list_eqb Bool.eqb) Bool.eqb", "c04_outcome")
        for i in obad:
            m = ometa[i]
            if m["cls"]:
                continue          # premise violated: covered by the call-sequence classification above
            ck.correspondence_broken("C04.outcome", {"case": m})
    ck.phase("model compared")

    # fixed probes
    pd = os.path.join(ck.work, "probes")
    e2e.write_module(pd, {"main.go": gen.PROBES})
    r1, o1 = L.build(pd, os.path.join(pd, "p_llgo"), timeout=1500)
    r2, o2 = e2e.go_build(pd, os.path.join(pd, "p_go"))
    nprobe = 0
    if r1 != 0 or r2 != 0:
        ck.correspondence_broken("e2e-build-probes", (o1 + o2)[-1500:])
    else:
        a = L.run_bin(os.path.join(pd, "p_llgo"), timeout=120)
        b = e2e.run_plain(os.path.join(pd, "p_go"), timeout=120)
        la, lb = a[2].splitlines(), b[2].splitlines()
        nprobe = len(lb)

        def section(ls):
            secs, cur = collections.OrderedDict(), []
            for l in ls:
                cur.append(l)
                m = re.match(r"(\w+) outer recovered", l)
                if m:
                    secs[m.group(1)] = cur
                    cur = []
            if cur:
                secs["_tail"] = cur
            return secs
        sa, sb = section(la), section(lb)
        for name, want in sb.items():
            got = sa.get(name)
            if got != want:
                key = {"nested": "recover-in-nested-call-stops-panic", "loopThenDefer": "defer-lifo-broken-by-block-compile-order",
                       "alwaysUnreached": "defer-always-replayed-though-never-reached",
                       "drainCross": "defer-loop-drain-crosses-argless-defer",
                       "rfNamedOnly": "rangefunc-only-defers-lose-named-result-changes",
                       "nestedLoopThenDefer": "defer-executed-before-frame-creating-defer"}.get(name, "defer-probe-" + name)
                if name == "rfNamedOnly" and not (got and got[0] == "rfNamed 1 7"):
                    key = "defer-probe-" + name      # the listed finding is exactly `rfNamed 1 7` (operands of the return statements)
                ck.violation(key, "probe %s: llgo %s vs go %s" % (name, got, want), {"probe": name, "llgo": got, "go": want, "rc": a[0]})
    # Goexit + panic in a deferred call, unrecovered: exit status and first panic line
    if r1 == 0 and r2 == 0:
        a = L.run_bin(os.path.join(pd, "p_llgo"), ["goexitpanic"], timeout=20)
        b = e2e.run_plain(os.path.join(pd, "p_go"), ["goexitpanic"], timeout=20)
        nprobe += 1
        sa = "survived" if "SURVIVED" in a[2] else ("panic" if "boom while exiting" in a[2] else "other")
        sb = "survived" if "SURVIVED" in b[2] else ("panic" if "boom while exiting" in b[2] else "other")
        if a[0] != b[0] or sa != sb or ("last deferred call runs" in a[2]) != ("last deferred call runs" in b[2]):
            ck.violation("goexit-then-deferred-panic-outcome", "Goexit, then a deferred call panics, nobody recovers: llgo exit %s (%s), go exit %s (%s)" % (a[0], sa, b[0], sb),
                         {"llgo_rc": a[0], "go_rc": b[0], "llgo_tail": a[2][-300:], "go_tail": b[2][-300:]})
    ck.phase("probes done")
    ck.add_cov(evaluations=total_runs + nprobe, nontrivial=interesting, samples=samples,
               runs=total_runs, runs_with_2plus_defers=interesting, outcome_cases=len(ocases), outcome_cases_with_recover=sum(1 for m in ometa if m['recs']), outcome_cases_body_panics=sum(1 for m in ometa if m['bodypanic']), stmt_kinds=dict(kinds_seen), differing_runs=dict(nknown))
    ck.cov["rule"] = ("generated functions x input bit-vectors (each run = one dynamic path); non-trivial = runs that executed >= 2 defer statements; "
                      "every run compared llgo vs go (trace) and llgo vs Coq machine (calls)")
    return ck.finish()
