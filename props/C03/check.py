"""C03 - every mandated run-time panic is raised, recoverable, and raised only then.

T2: the bounds-check prefix of generated index functions (slice/string/array
pointer x every index type, for amd64 and for a 32-bit target) is translated to
LLIR and compared with recipe_index inside Coq; the theorems of C03/Props.v are
about the recipes.  E: a probe program (8.9k slice/index/make probes, assertion,
nil map, division, nil dereference, channel misuse, each between trace lines
and recovered) compiled by llgo and by go, compared line by line."""
import os, re, json
import vlib, e2e, ll2v
import importlib.util
_sp = importlib.util.spec_from_file_location("c03assertgen", os.path.join(os.path.dirname(os.path.abspath(__file__)), "assertgen.py"))
assertgen = importlib.util.module_from_spec(_sp)
_sp.loader.exec_module(assertgen)

H = os.path.dirname(os.path.abspath(__file__))
INTS = [("int8", 8, True), ("int16", 16, True), ("int32", 32, True), ("int64", 64, True),
        ("uint8", 8, False), ("uint16", 16, False), ("uint32", 32, False), ("uint64", 64, False)]
SEGV = ["nil-iface-call", "nil-func-call", "nil-error-call", "nil-read", "nil-write", "nil-big-offset",
        "nil-arr-index", "nil-arr-slice", "nil-arr-len"]


def ity(t):
    return "{| bits := %d; sg := %s |}" % (t[1], "true" if t[2] else "false")


def gen_index_functions():
    fs = []
    for t in INTS:
        fs.append(("is_" + t[0], "func is_%s(a []int32, i %s) int32 { return a[i] }" % (t[0], t[0]), "KSlice", t))
        fs.append(("iw_" + t[0], "func iw_%s(a []int32, i %s) { a[i] = 1 }" % (t[0], t[0]), "KSlice", t))
        fs.append(("ss_" + t[0], "func ss_%s(s string, i %s) byte { return s[i] }" % (t[0], t[0]), "KString", t))
        fs.append(("ap_" + t[0], "func ap_%s(a *[10]int32, i %s) int32 { return a[i] }" % (t[0], t[0]), "(KArrPtr 10)", t))
    return fs


def run(ck):
    ck.trusted = ["Coq 8.16.1 kernel", "lib/ll2v.py translate_check_prefix (syntactic)", "lib/verifgen",
                  "Lib/LLIR.v as model of LLVM semantics", "e2e shims (LLVM 14, GNU ld); 32-bit code is not executed, only its IR is checked"]
    ck.assumptions = ["the signal-mask state machine (handler entry blocks SIGSEGV, siglongjmp restores the mask only if saved) is the POSIX contract; observed on Linux x86-64 only",
                      "panic message texts are not compared, only whether and where a panic occurs and that it is recoverable"]
    ck.coq_build(["C02", "C03"])
    ck.coq_props("LLGoV.C03.Props", "theories/C03/Props.v")
    ck.phase("coq built")
    L = e2e.LLGo(ck)
    if not L.ok:
        ck.correspondence_broken("llgo-build", L.buildlog[-2000:])
        return ck.finish()
    rc, out, gen = L.overlay_build("chore/verifgen", {"main.go": os.path.join(vlib.ROOT, "lib", "verifgen", "main.go")}, "verifgen")
    if rc != 0:
        ck.correspondence_broken("verifgen-build", out[-2000:])
        return ck.finish()
    ck.phase("llgo+verifgen built")

    # ---------- T2 ----------
    fs = gen_index_functions()
    d = os.path.join(ck.work, "irpkg")
    e2e.write_module(d, {"main.go": "package main\n\n" + "\n".join(s for _, s, _, _ in fs) +
                         "\n\nfunc withDefer(p *int) (r int) {\n\tdefer func() { recover() }()\n\treturn *p\n}\n\nfunc main() {}\n"})
    terms = []       # (name, target pw, key, term, meta)
    savemasks = []   # (target pw, second arguments of the sigsetjmp calls in a deferring function)
    untrans = []
    for pw, args in ((64, []), (32, ["-goos", "linux", "-goarch", "arm"])):
        rc, ir = vlib.sh([gen] + args + ["."], cwd=d, env=L.env(), timeout=600)
        if rc != 0:
            ck.correspondence_broken("verifgen-run-%d" % pw, ir[-1500:])
            continue
        fns = ll2v.split_functions(ir)
        wd = fns.get("verifprog.withDefer")
        if wd is not None:
            sj = re.findall(r"call i32 @_*sigsetjmp\(ptr %\d+, i32 (\d+)\)", "\n".join(wd[1]))
            savemasks.append((pw, sj))
        for name, src, kind, t in fs:
            f = fns.get("verifprog." + name)
            if f is None:
                untrans.append((name, pw, "missing"))
                continue
            term, slots, why = ll2v.translate_check_prefix(f[0], f[1])
            if term is None:
                untrans.append((name, pw, why))
                continue
            terms.append((name, pw, "KIdx %s (%s) %d" % (kind, ity(t), pw), term, (kind, t, src)))
    badf, bado = set(), set()
    if terms:
        text = "From LLGoV Require Import C03.Model.\nLocal Open Scope Z_scope.\nDefinition all_ir : list (ikey * func) := [\n" + \
            ";\n".join("(%s, %s)" % (k, t) for _, _, k, t, _ in terms) + "\n].\n" + \
            "Fixpoint idx (fixed : bool) (n : N) (l : list (ikey * func)) : list N := match l with [] => [] | (k, f) :: r => if func_eqb f (recipe_of_idx fixed k) then idx fixed (N.succ n) r else n :: idx fixed (N.succ n) r end.\n" + \
            "Definition BADF := Eval vm_compute in idx true 0%N all_ir.\nPrint BADF.\nDefinition BADO := Eval vm_compute in idx false 0%N all_ir.\nPrint BADO.\n"
        rc, out = ck.coq_run(text, "c03_ir")
        mf = re.search(r"BADF\s*=\s*\[(.*?)\]\s*:", out, re.S)
        mo = re.search(r"BADO\s*=\s*\[(.*?)\]\s*:", out, re.S)
        if rc != 0 or not mf or not mo:
            ck.correspondence_broken("ir-obligation-eval", out[-1500:])
        else:
            badf = {int(x) for x in re.findall(r"\d+", mf.group(1))}
            bado = {int(x) for x in re.findall(r"\d+", mo.group(1))}
    ck.obligations.append(("gen_index_ir_matches_recipes (%d functions, amd64 + linux/arm)" % len(terms), not badf and not untrans,
                           "vm_compute; mismatching: %s; untranslatable: %s" % ([(terms[i][0], terms[i][1]) for i in sorted(badf)][:8], untrans[:5])))
    if badf or untrans:
        ck.broken.append("obligation:gen_index_ir_matches_recipes " + ",".join("%s/%d" % (terms[i][0], terms[i][1]) for i in sorted(badf)[:10]) +
                         " " + ",".join("%s/%d:%s" % u for u in untrans[:5]))
    # failing-input search in the model for each mismatching function
    cand = [terms[i] for i in sorted(badf)][:24]
    if cand:
        text = "From LLGoV Require Import C03.Model.\nLocal Open Scope Z_scope.\n"
        for j, (name, pw, key, term, meta) in enumerate(cand):
            text += "Definition W%d := Eval vm_compute in firstn 2 (disagree_idx (%s) %s (%s)).\nPrint W%d.\n" % (j, term, meta[0], ity(meta[1]), j)
        rc, out = ck.coq_run(text, "c03_search")
        for j, (name, pw, key, term, meta) in enumerate(cand):
            m = re.search(r"W%d\s*=\s*\[(.*?)\]\s*:" % j, out, re.S)
            if m and m.group(1).strip():
                w = re.sub(r"\s+", " ", m.group(1))[:160]
                i_old = terms.index((name, pw, key, term, meta)) not in bado
                k = "index-narrowed-before-bounds-check-32bit" if (pw == 32 and meta[1][1] == 64 and i_old) else "index-check-%s-%d" % (name, pw)
                ck.violation(k, "IR of `%s` for %d-bit int lets (len, index) = %s through / rejects it wrongly (model evaluation of the emitted IR; 32-bit code cannot run here)" % (meta[2], pw, w),
                             {"function": meta[2], "int_bits": pw, "len_index_witness": w, "ir_term": term})
    # ---------- T2 for FitIntSize (bounds of slice expressions / make wider than int) ----------
    ffs = [("mk_" + t[0], "func mk_%s(n %s) []int32 { return make([]int32, n) }" % (t[0], t[0]), t) for t in INTS]
    d2 = os.path.join(ck.work, "irfit")
    e2e.write_module(d2, {"main.go": "package main\n\n" + "\n".join(s for _, s, _ in ffs) + "\n\nfunc main() {}\n"})
    fterms, funtrans = [], []
    for pw, args in ((64, []), (32, ["-goos", "linux", "-goarch", "arm"])):
        rc, ir = vlib.sh([gen] + args + ["."], cwd=d2, env=L.env(), timeout=600)
        if rc != 0:
            ck.correspondence_broken("verifgen-run-fit-%d" % pw, ir[-1500:])
            continue
        fns = ll2v.split_functions(ir)
        for name, src, t in ffs:
            f = fns.get("verifprog." + name)
            for argidx in (0, 1):
                term, why = (None, "missing") if f is None else ll2v.translate_call_operand(f[0], f[1], "MakeSlice", argidx)
                if term is None:
                    funtrans.append((name, pw, why))
                elif argidx == 0:
                    fterms.append((name, pw, "(%s, %d)" % (ity(t), pw), term, src))
    fbadf, fbado = set(), set()
    if fterms:
        text = "From LLGoV Require Import C03.Model.\nLocal Open Scope Z_scope.\nDefinition all_ir : list ((ity * Z) * func) := [\n" + \
            ";\n".join("(%s, %s)" % (k, t) for _, _, k, t, _ in fterms) + "\n].\n" + \
            "Fixpoint idx (fixed : bool) (n : N) (l : list ((ity * Z) * func)) : list N := match l with [] => [] | (k, f) :: r => if func_eqb f (recipe_fit fixed (fst k) (snd k)) then idx fixed (N.succ n) r else n :: idx fixed (N.succ n) r end.\n" + \
            "Definition BADF := Eval vm_compute in idx true 0%N all_ir.\nPrint BADF.\nDefinition BADO := Eval vm_compute in idx false 0%N all_ir.\nPrint BADO.\n"
        rc, out = ck.coq_run(text, "c03_fit")
        mf = re.search(r"BADF\s*=\s*\[(.*?)\]\s*:", out, re.S)
        mo = re.search(r"BADO\s*=\s*\[(.*?)\]\s*:", out, re.S)
        if rc != 0 or not mf or not mo:
            ck.correspondence_broken("fit-obligation-eval", out[-1500:])
        else:
            fbadf = {int(x) for x in re.findall(r"\d+", mf.group(1))}
            fbado = {int(x) for x in re.findall(r"\d+", mo.group(1))}
    ck.obligations.append(("gen_fitintsize_ir_matches_recipe (%d functions, amd64 + linux/arm)" % len(fterms), not fbadf and not funtrans,
                           "vm_compute; mismatching: %s; untranslatable: %s" % ([(fterms[i][0], fterms[i][1]) for i in sorted(fbadf)][:8], funtrans[:4])))
    if fbadf or funtrans:
        ck.broken.append("obligation:gen_fitintsize_ir_matches_recipe " + ",".join("%s/%d" % (fterms[i][0], fterms[i][1]) for i in sorted(fbadf)[:10]))
    for i in sorted(fbadf):
        name, pw, key, term, src = fterms[i]
        if i not in fbado and pw == 32:
            ck.violation("slice-bound-narrowed-before-runtime-check-32bit",
                         "IR of `%s` for 32-bit int narrows the 64-bit size with a plain trunc: make([]int32, int64(1)<<32+5) has length 5; a[0:int64(1)<<32+1] passes as a[0:1] (model: fit_int_truncation_refuted)" % src,
                         {"function": src, "int_bits": pw, "ir_term": term, "witness": "n = 2^32 + 1"})
    # ---------- signal configuration: premise of fault_recoverable_repeatedly ----------
    # savemask: second argument of the sigsetjmp emitted for a deferring function (IR); nodefer: the flags the
    # runtime installs its SIGSEGV handler with on this platform (runtime/internal/clite/signal/signal_linux.go)
    sm = None
    if savemasks and all(len(sj) >= 1 and len(set(sj)) == 1 for _, sj in savemasks) and len({sj[0] for _, sj in savemasks}) == 1:
        sm = savemasks[0][1][0] != "0"
    nodefer = None
    sigsrc = os.path.join(vlib.REPO, "runtime", "internal", "clite", "signal", "signal_linux.go")
    if os.path.exists(sigsrc):
        txt = open(sigsrc).read()
        mconst = re.search(r"const\s+saNodefer\s*=\s*(0x[0-9a-fA-F]+|\d+)", txt)
        flags_set = re.search(r"act\.flags\s*=\s*([^\n]+)", txt)
        nodefer = bool(mconst and int(mconst.group(1), 0) == 0x40000000 and flags_set and "saNodefer" in flags_set.group(1))
    else:
        nodefer = False          # generic signal.go: default flags
    if sm is None:
        ck.obligations.append(("gen_signal_config_recoverable", False, "no sigsetjmp call found in the IR of a deferring function: %s" % savemasks))
        ck.broken.append("obligation:gen_signal_config_recoverable (sigsetjmp not found)")
    else:
        rc, out = ck.coq_run("From LLGoV Require Import C03.Model.\nDefinition CFG := Eval vm_compute in recoverable_config %s %s.\nPrint CFG.\n" % (
            "true" if nodefer else "false", "true" if sm else "false"), "c03_sig")
        okc = rc == 0 and re.search(r"CFG\s*=\s*true", out) is not None
        ck.obligations.append(("gen_signal_config_recoverable (SA_NODEFER=%s, sigsetjmp savemask=%s)" % (nodefer, sm), okc, "vm_compute recoverable_config"))
        if not okc:
            ck.broken.append("obligation:gen_signal_config_recoverable nodefer=%s savemask=%s" % (nodefer, sm))
    ck.phase("T2 done")

    # ---------- E ----------
    pd = os.path.join(ck.work, "probes")
    cs = assertgen.cases()
    e2e.write_module(pd, {"main.go": open(os.path.join(H, "prog", "main.go")).read(), "assert.go": assertgen.program(cs, "runAsserts")})
    r1, o1 = L.build(pd, os.path.join(pd, "p_llgo"), timeout=1500)
    r2, o2 = e2e.go_build(pd, os.path.join(pd, "p_go"))
    nlines = 0
    classes = {}
    if r1 != 0 or r2 != 0:
        ck.correspondence_broken("e2e-probes-build", (o1 + o2)[-2000:])
    else:
        ck.phase("probe program built")

        def both(args):
            a = L.run_bin(os.path.join(pd, "p_llgo"), args, timeout=300)
            b = e2e.run_plain(os.path.join(pd, "p_go"), args, timeout=300)
            return a, b

        def records(text):
            """one record per probe: the value lines it printed and its verdict line (`<name> ok|PANIC` / `<name> recovered ...`)"""
            recs, cur = [], []
            for l in text.splitlines():
                cur.append(l)
                if l.endswith(" ok") or l.endswith(" PANIC") or " recovered " in l or l.startswith("end ") or l.startswith("round "):
                    recs.append(cur)
                    cur = []
            if cur:
                recs.append(cur)
            return recs

        def diff_lines(mode, a, b):
            ra, rb = records(a[2]), records(b[2])
            out = []
            for i, y in enumerate(rb):
                x = ra[i] if i < len(ra) else ["<missing>"]
                if x != y:
                    out.append((i, " / ".join(x), " / ".join(y)))
            return ra, rb, out

        for mode in ("slice", "misc", "chan"):
            a, b = both([mode])
            la, lb, df = diff_lines(mode, a, b)
            nlines += sum(len(r) for r in lb)
            classes[mode] = len(lb)
            if b[0] != 0:
                ck.correspondence_broken("reference-run-" + mode, b[2][-500:])
                continue
            # classify
            seen = set()
            ctx = None
            for i, x, y in df:
                name = " ".join(y.split(" / ")[-1].split(" PANIC")[0].split(" ok")[0].split(" recovered")[0].split()) if y.strip() else y
                # line pairs shift after a missing/extra value line; report the first of each probe name only
                key = None
                yv = y.split(" / ")[-1]
                if mode == "chan" and yv.startswith("send on closed"):
                    key = "chan-send-on-closed-no-panic"
                elif mode == "chan" and yv.startswith("close of closed"):
                    key = "chan-close-of-closed-no-panic"
                elif mode == "chan" and yv.startswith("select send closed"):
                    key = "chan-select-send-on-closed-no-panic"
                elif mode == "slice" and ("make(chan -1)" in y or "make(chan -1)" in x):
                    key = "make-chan-negative-size-no-panic"
                else:
                    key = "panic-probe-%s-%s" % (mode, re.sub(r"\W+", "_", name)[:40])
                if key in seen:
                    continue
                seen.add(key)
                ck.violation(key, "probe line %d differs: llgo `%s` vs go `%s`" % (i, x[:120], y[:120]),
                             {"mode": mode, "line": i, "llgo": x, "go": y, "llgo_rc": a[0]})
                if len(seen) >= 12:
                    break
            if a[0] != 0 and not df:
                ck.violation("panic-probe-%s-exit" % mode, "llgo program exits %s in mode %s" % (a[0], mode), {"stderr_tail": a[2][-400:]})
        # SIGSEGV-based probes: one per process, then twice in one process
        for name in SEGV:
            a, b = both(["one", name])
            nlines += len(b[2].splitlines())
            if a[2] != b[2] or a[0] != b[0]:
                ck.violation("nil-fault-" + name, "single fault probe %s: llgo rc=%s `%s` vs go `%s`" % (name, a[0], a[2][-200:], b[2][-200:]),
                             {"probe": name, "llgo": a[2], "go": b[2], "llgo_rc": a[0]})
                continue
            a2, b2 = both(["twice", name])
            nlines += len(b2[2].splitlines())
            if a2[2] != b2[2] or a2[0] != b2[0]:
                died = a2[0] in (-11, 139) and a2[2].splitlines()[:1] == b2[2].splitlines()[:1]
                key = "nil-fault-second-in-thread-kills-process" if (died and name != "nil-arr-len") else "nil-fault-twice-" + name
                ck.violation(key, "probe %s run twice in one goroutine: first recovered, second: llgo rc=%s, go rc=%s" % (name, a2[0], b2[0]),
                             {"probe": name, "llgo": a2[2], "go": b2[2], "llgo_rc": a2[0]})
        classes["segv"] = len(SEGV) * 2
    ck.phase("probes done")

    # ---------- type assertions: matrix program vs Coq model (C03.Assert) and vs go; emitted test kind from the IR ----------
    ad = pd
    n_assert = 0
    if r1 == 0 and r2 == 0:
        a = L.run_bin(os.path.join(pd, "p_llgo"), ["assert"], timeout=120)
        b = e2e.run_plain(os.path.join(pd, "p_go"), ["assert"], timeout=120)

        def outcomes(text):
            d = {}
            for l in text.splitlines():
                m = re.match(r"a(\d+) (ok|notok|PANIC)\s*(.*)$", l)
                if m:
                    d[int(m.group(1))] = (m.group(2), m.group(3))
            return d
        oa, ob = outcomes(a[2]), outcomes(b[2])
        if len(ob) != len(cs) or b[0] != 0:
            ck.correspondence_broken("assert-reference-run", "go printed %d of %d outcomes, rc %s" % (len(ob), len(cs), b[0]))

        def describe(n):
            si, d, tg, ok = cs[n]
            tn = assertgen.TYPES[tg[1]][0] if tg[0] == "c" else assertgen.IFACES[tg[1]][0]
            return "%s x.(%s) with x of static type %s holding %s" % ("v, ok :=" if ok else "v :=", tn, assertgen.IFACES[si][0],
                                                                       "nil" if d is None else assertgen.TYPES[d][1])
        seen = set()
        for n in range(len(cs)):
            if oa.get(n) != ob.get(n):
                si, d, tg, ok = cs[n]
                tn = assertgen.TYPES[tg[1]][0] if tg[0] == "c" else assertgen.IFACES[tg[1]][0]
                key = "type-assert-%s-%s-to-%s" % (assertgen.IFACES[si][0], "nil" if d is None else re.sub(r"\W+", "_", assertgen.TYPES[d][0]), re.sub(r"\W+", "_", tn))
                if key in seen:
                    continue
                seen.add(key)
                if len(seen) <= 12:
                    ck.violation(key, "%s: llgo %s, go %s" % (describe(n), oa.get(n), ob.get(n)), {"case": n, "llgo": oa.get(n), "go": ob.get(n), "what": describe(n)})
        n_assert = len(cs)
        code = {"ok": "AOk", "notok": "ANotOk", "PANIC": "APanic"}
        hdr = "From LLGoV Require Import Lib.Common C03.Assert.\nFrom Coq Require Import List. Import ListNotations.\n"
        aterms = ["(%s, %s)" % (assertgen.coq_case(c), code.get(oa.get(n, ("missing",))[0], "APanic")) for n, c in enumerate(cs)]
        missing = [n for n in range(len(cs)) if n not in oa]
        if missing:
            ck.correspondence_broken("assert-llgo-run", "llgo printed no outcome for %d cases (rc %s), first %s" % (len(missing), a[0], describe(missing[0])))
        bad = ck.coq_mismatches(hdr, aterms, "run_case", "aout_eqb", "c03_assert", shard=400)
        bad = [i for i in bad if i not in missing]
        if bad:
            ck.correspondence_broken("C03.Assert/outcome", {"n": len(bad), "first": describe(bad[0]), "llgo": oa.get(bad[0])})
    # emitted test kind
    rc, ir = vlib.sh([gen, "."], cwd=ad, env=L.env(), timeout=900)
    kinds_seen = {}
    if rc != 0:
        ck.correspondence_broken("verifgen-run-assert", ir[-1500:])
    else:
        fns = ll2v.split_functions(ir)
        kterms, kraw = [], []
        for n, c in enumerate(cs):
            f = fns.get("verifprog.a%d" % n)
            body = "\n".join(f[1]) if f else ""
            if 'Implements"(' in body:
                k = 1
            elif 'MatchesClosure"(' in body:
                k = 2
            elif re.search(r"icmp ne ptr %\d+, null", body):
                k = 0
            elif re.search(r"icmp eq ptr %\d+, (getelementptr|@)", body):
                k = 3
            else:
                k = 9
            kinds_seen[k] = kinds_seen.get(k, 0) + 1
            si, d, tg, ok = c
            t = "TConc (%s)" % assertgen.coq_desc(tg[1]) if tg[0] == "c" else "TIface %d [%s]" % (tg[1], ";".join(str(m) for m in assertgen.IFACES[tg[1]][1]))
            kterms.append("((%d, %s), %d)" % (si, t, k))
            kraw.append(n)
        hdr = "From LLGoV Require Import Lib.Common C03.Assert.\nFrom Coq Require Import List Arith. Import ListNotations.\n"
        badk = ck.coq_mismatches(hdr, kterms, "kind_case", "Nat.eqb", "c03_assert_kind", shard=400)
        ck.obligations.append(("gen_assert_test_kind_matches_model (%d functions)" % len(kterms), not badk,
                               "vm_compute; kinds seen %s; mismatching: %s" % (kinds_seen, [kraw[i] for i in badk][:8])))
        if badk:
            n0 = kraw[badk[0]]
            ck.broken.append("obligation:gen_assert_test_kind_matches_model a%d" % n0)
    ck.phase("type assertions done")
    ck.add_cov(evaluations=len(terms) + nlines + n_assert, nontrivial=len(terms) + nlines // 2 + n_assert,
               samples=[{"ir_function": terms[0][4][2], "key": terms[0][2], "term": terms[0][3]} if terms else {},
                        {"probe": "s[lo:hi:max] for L in {0,1,3}, C in {L,L+2}, lo/hi/max in -1..6 (panic or len/cap)"}],
               ir_functions=len(terms), untranslatable=len(untrans), probe_lines=nlines, classes=classes, type_assertion_cases=n_assert, assertion_test_kinds={str(k): v for k, v in kinds_seen.items()})
    ck.cov["rule"] = ("T2: index functions (3 kinds x 8 index types x read/write) for 64- and 32-bit int, IR prefix vs recipe in Coq; "
                      "E: probe lines = one per (construct, operand tuple) around the bounds, compared with the reference toolchain; "
                      "nontrivial counted as IR functions + half of the probe lines (each probe prints a verdict line and a value line)")
    return ck.finish()
