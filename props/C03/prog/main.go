package main

// C03 end-to-end probes: every construct that must panic (and its in-range
// neighbours that must not), each between two trace lines, recovered, and the
// whole set repeated.  Output goes to stderr via println; compared line by
// line with the reference toolchain.

import "os"

var sink int

type T struct{ a, b int }
type Big struct {
	pad [1 << 16]byte
	x   int
}
type I interface{ M() int }
type J interface{ N() int }

func (t T) M() int { return t.a }

var bounds = []int{-1, 0, 1, 2, 3, 4, 5, 6}

func try(name string, f func()) {
	defer func() {
		if r := recover(); r != nil {
			println(name, "PANIC")
		}
	}()
	f()
	println(name, "ok")
}

func sliceProbes() {
	for _, L := range []int{0, 1, 3} {
		for _, C := range []int{L, L + 2} {
			s := make([]int, L, C)
			for i := range s {
				s[i] = i + 10
			}
			str := "abcdef"[:L]
			arr := &[4]int{1, 2, 3, 4}
			for _, lo := range bounds {
				for _, hi := range bounds {
					try("s[lo:hi]", func() { r := s[lo:hi]; println(" ", L, C, lo, hi, len(r), cap(r)) })
					try("str[lo:hi]", func() { r := str[lo:hi]; println(" ", L, lo, hi, len(r), r) })
					try("arr[lo:hi]", func() { r := arr[lo:hi]; println(" ", lo, hi, len(r), cap(r)) })
					for _, mx := range bounds {
						try("s[lo:hi:max]", func() { r := s[lo:hi:mx]; println(" ", L, C, lo, hi, mx, len(r), cap(r)) })
						try("arr[lo:hi:max]", func() { r := arr[lo:hi:mx]; println(" ", lo, hi, mx, len(r), cap(r)) })
					}
				}
				try("s[lo:]", func() { r := s[lo:]; println(" ", L, C, lo, len(r), cap(r)) })
				try("s[:lo]", func() { r := s[:lo]; println(" ", L, C, lo, len(r), cap(r)) })
				try("str[lo:]", func() { r := str[lo:]; println(" ", L, lo, r) })
				try("s[i]", func() { println(" ", L, lo, s[lo]) })
				try("s[i]=", func() { s[lo] = 7; println(" ", L, lo) })
				try("str[i]", func() { println(" ", L, lo, str[lo]) })
				try("arr[i]", func() { println(" ", lo, arr[lo]) })
				i8, u8, i64, u64 := int8(lo), uint8(lo), int64(lo), uint64(lo)
				try("s[i8]", func() { println(" ", L, lo, s[i8]) })
				try("s[u8]", func() { println(" ", L, lo, s[u8]) })
				try("s[i64]", func() { println(" ", L, lo, s[i64]) })
				try("s[u64]", func() { println(" ", L, lo, s[u64]) })
				try("s[u64big]", func() { println(" ", L, lo, s[u64+1<<40]) })
				try("s[i64min]", func() { println(" ", L, lo, s[i64-1<<62]) })
				try("[4]int(s)", func() { r := [4]int(s[:C]); println(" ", C, r[0]) })
				try("(*[2]int)(s)", func() { r := (*[2]int)(s[:C]); println(" ", C, len(r)) })
				try("(*[0]int)(s)", func() { r := (*[0]int)(s); println(" ", C, len(r)) })
				// length below the array length but capacity sufficient: must still panic
				try("[2]int(s) len<N<=cap", func() { r := [2]int(s[:C][:lo&1]); println(" ", C, r[0]) })
				try("(*[3]int)(s) len<N<=cap", func() { r := (*[3]int)(s[:C][:(lo+8)%3]); println(" ", C, len(r)) })
				try("make(n)", func() { r := make([]int, lo); println(" ", lo, len(r)) })
				try("make(n,c)", func() { r := make([]byte, lo, C); println(" ", lo, C, len(r), cap(r)) })
			}
		}
	}
	huge := 1 << 62
	try("make(huge)", func() { r := make([]int, huge); println(len(r)) })
	try("make(hugecap)", func() { r := make([]int, 1, huge); println(len(r)) })
	try("make(chan -1)", func() { n := -1 + sink; r := make(chan int, n); println(cap(r)) })
	try("make(chan oversize)", func() { n := 1<<62 + sink; r := make(chan [1 << 15]byte, n); println(cap(r)) })
	try("make(chan 0 computed)", func() { n := sink - sink; r := make(chan int, n); println(cap(r)) })
	try("make(chan struct{} huge)", func() { n := 1<<40 + sink; r := make(chan struct{}, n); println(cap(r)) })
}

func order(name string, f func()) {
	defer func() {
		r := recover()
		println(name, "recovered", r != nil, "sink", sink)
	}()
	sink = 1
	f()
	sink = 3
}

func miscProbes(round int) {
	println("round", round)
	var m map[string]int
	try("nilmap read", func() { println(" ", m["a"], len(m)) })
	order("nilmap write", func() { sink = 2; m["a"] = 1; sink = 99 })
	var e interface{} = T{1, 2}
	try("assert ok", func() { println(" ", e.(T).a) })
	order("assert wrong type", func() { sink = 2; _ = e.(*T); sink = 99 })
	order("assert iface missing", func() { sink = 2; _ = e.(J); sink = 99 })
	try("assert iface ok", func() { println(" ", e.(I).M()) })
	try("assert commaok", func() { _, ok := e.(J); println(" ", ok) })
	var ne interface{}
	order("assert nil iface", func() { sink = 2; _ = ne.(T); sink = 99 })
	// a nil value of a non-empty interface type asserted to an interface type (also the empty one) panics
	var nerr I
	order("assert nil I to any", func() { sink = 2; _ = nerr.(any); sink = 99 })
	order("assert nil I to I", func() { sink = 2; _ = nerr.(I); sink = 99 })
	order("assert nil any to any", func() { sink = 2; _ = ne.(any); sink = 99 })
	try("assert nil I to any commaok", func() { _, ok := nerr.(any); println(" ", ok) })
	try("assert nil any to I commaok", func() { _, ok := ne.(I); println(" ", ok) })
	var full I = T{3, 4}
	try("assert I to any ok", func() { v := full.(any); println(" ", v.(T).a) })
	try("assert I to J commaok", func() { _, ok := full.(J); println(" ", ok) })
	zero := sink - sink
	order("int div zero", func() { sink = 2; sink = 5 / zero; sink = 99 })
	order("int rem zero", func() { sink = 2; sink = 5 % zero; sink = 99 })
	try("float div zero", func() { f := 1.0 / float64(zero); println(" ", f > 1e300) })
	order("explicit panic", func() { sink = 2; panic("x") })
}

// probes that fault through the SIGSEGV handler; run one per process
var segv = map[string]func(){
	"nil-iface-call": func() { var ni I; order("nil iface call", func() { sink = 2; sink = ni.M(); sink = 99 }) },
	"nil-func-call":  func() { var fn func(); order("nil func call", func() { sink = 2; fn(); sink = 99 }) },
	"nil-error-call": func() { order("nil error call", func() { sink = 2; var err error; _ = err.Error(); sink = 99 }) },
	"nil-read":       func() { var p *T; order("nil deref read", func() { sink = 2; sink = p.b; sink = 99 }) },
	"nil-write":      func() { var p *T; order("nil deref write", func() { sink = 2; p.a = 1; sink = 99 }) },
	"nil-big-offset": func() { var bp *Big; order("nil deref big offset", func() { sink = 2; sink = bp.x; sink = 99 }) },
	"nil-arr-index":  func() { var ap *[4]int; order("nil array ptr index", func() { sink = 2; sink = ap[2]; sink = 99 }) },
	"nil-arr-slice": func() {
		var ap *[4]int
		order("nil array ptr slice", func() { sink = 2; r := ap[1:2]; sink = len(r); sink = 99 })
	},
	"nil-arr-len": func() { var ap *[4]int; try("nil array ptr len", func() { println(" ", len(ap)) }) },
}

func chanProbes() {
	c := make(chan int, 1)
	close(c)
	order("send on closed", func() { sink = 2; c <- 1; sink = 99 })
	order("close of closed", func() { sink = 2; close(c); sink = 99 })
	var nc chan int
	order("close of nil", func() { sink = 2; close(nc); sink = 99 })
	try("recv closed", func() { v, ok := <-c; println(" ", v, ok) })
	// closed AND full: a non-blocking send must still panic, not take default
	cf := make(chan int, 2)
	cf <- 1
	cf <- 2
	close(cf)
	order("select send closed full", func() {
		sink = 2
		select {
		case cf <- 3:
			sink = 98
		default:
			sink = 97
		}
	})
	order("send closed full", func() { sink = 2; cf <- 3; sink = 99 })
	cu := make(chan int)
	close(cu)
	order("select send closed unbuffered", func() {
		sink = 2
		select {
		case cu <- 3:
			sink = 98
		default:
			sink = 97
		}
	})
	try("recv closed drains", func() { a, ok1 := <-cf; b, ok2 := <-cf; z, ok3 := <-cf; println(" ", a, ok1, b, ok2, z, ok3) })
	order("select send closed", func() {
		sink = 2
		select {
		case c <- 1:
			sink = 98
		default:
			sink = 97
		}
	})
}

func main() {
	mode := "all"
	if len(os.Args) > 1 {
		mode = os.Args[1]
	}
	switch mode {
	case "slice":
		sliceProbes()
	case "misc":
		for r := 0; r < 3; r++ {
			miscProbes(r)
		}
	case "one":
		segv[os.Args[2]]()
	case "twice":
		segv[os.Args[2]]()
		segv[os.Args[2]]()
	case "chan":
		chanProbes()
	case "assert":
		runAsserts() // generated: props/C03/assertgen.py
	}
	println("end", mode)
}
