"""Type-assertion matrix for C03: every (static interface type, dynamic value, asserted type, comma-ok) combination
that the Go type checker admits over a small universe of types, one function per combination."""

# name, value expression, method ids, signature id of the underlying func type (None: not a func), named, show(v)
TYPES = [
    ("int", "7", [], None, False, "v"),
    ("string", '"s"', [], None, False, "v"),
    ("AT", "AT{3}", [1], None, True, "v.a"),
    ("*AT", "&AT{4}", [1, 2], None, False, "v.a"),
    ("AS", 'AS{"q"}', [], None, True, "v.b"),
    ("AE", "AE(5)", [1, 3], None, True, "int(v)"),
    ("*AE", "ape", [1, 3], None, False, "int(*v)"),
    ("func(int)", "func(int) {}", [], 0, False, "v != nil"),
    ("AF", "AF(func(int) {})", [], 0, True, "v != nil"),
    ("AG", "AG(func(int) {})", [1], 0, True, "v != nil"),
    ("func(string)", "func(string) {}", [], 1, False, "v != nil"),
    ("AH", "AH(nil)", [], 1, True, "v == nil"),
]
IFACES = [("any", []), ("AI", [1]), ("AJ", [1, 2]), ("AK", [3]), ("AL", [1, 3])]

PRELUDE = '''package main

type AT struct{ a int }

func (AT) M1()  {}
func (*AT) M2() {}

type AS struct{ b string }
type AE int

func (AE) M1() {}
func (AE) M3() {}

type AF func(int)
type AG func(int)

func (AG) M1() {}

type AH func(string)

type AI interface{ M1() }
type AJ interface {
	M1()
	M2()
}
type AK interface{ M3() }
type AL interface {
	M1()
	M3()
}

var ape = new(AE)

func aguard(name string, f func()) {
	defer func() {
		if e := recover(); e != nil {
			println(name, "PANIC")
		}
	}()
	f()
}
'''


def impl(meths, req):
    return all(m in meths for m in req)


def cases():
    """(static iface index, dyn type index or None, target ('c', ti) | ('i', ii), commaok)"""
    out = []
    for si, (sn, sreq) in enumerate(IFACES):
        if sn == "AK":
            continue
        dyns = [None] + [i for i, t in enumerate(TYPES) if impl(t[2], sreq)]
        targets = [("c", i) for i, t in enumerate(TYPES) if impl(t[2], sreq)] + [("i", i) for i in range(len(IFACES))]
        for d in dyns:
            for tg in targets:
                for ok in (False, True):
                    out.append((si, d, tg, ok))
    return out


def program(cs, entry="main"):
    fs, calls = [], []
    for n, (si, d, tg, ok) in enumerate(cs):
        sname = IFACES[si][0]
        tname = TYPES[tg[1]][0] if tg[0] == "c" else IFACES[tg[1]][0]
        if ok:
            fs.append("func a%d(x %s) (%s, bool) {\n\tv, ok := x.(%s)\n\treturn v, ok\n}\n" % (n, sname, tname, tname))
        else:
            fs.append("func a%d(x %s) %s {\n\treturn x.(%s)\n}\n" % (n, sname, tname, tname))
        arg = "nil" if d is None else TYPES[d][1]
        show = TYPES[tg[1]][5] if tg[0] == "c" else "v != nil"
        if ok:
            zero = {"int": "v == 0", "string": 'v == ""', "AT": "v == AT{}", "AS": "v == AS{}", "AE": "v == 0"}.get(tname, "v == nil")
            body = ("v, ok := a%d(%s)\n\t\tif ok {\n\t\t\tprintln(\"a%d ok\", %s)\n\t\t} else {\n\t\t\tprintln(\"a%d notok\", %s)\n\t\t}" % (n, arg, n, show, n, zero))
        else:
            body = "v := a%d(%s)\n\t\tprintln(\"a%d ok\", %s)" % (n, arg, n, show)
        calls.append("\taguard(\"a%d\", func() {\n\t\t%s\n\t})\n" % (n, body))
    return PRELUDE + "\n" + "\n".join(fs) + "\nfunc %s() {\n" % entry + "".join(calls) + "}\n"


def coq_desc(i):
    n, _, meths, sig, named, _ = TYPES[i]
    ty = "GNamed %d" % i if named else ("GFunc %d" % sig if sig is not None else "GOther %d" % i)
    return "{| tid := %d; ty := %s; under_sig := %s; tmeths := [%s]; made := false |}" % (
        i, ty, "None" if sig is None else "(Some %d)" % sig, ";".join(str(m) for m in meths))


def coq_case(c):
    si, d, tg, ok = c
    t = "TConc (%s)" % coq_desc(tg[1]) if tg[0] == "c" else "TIface %d [%s]" % (tg[1], ";".join(str(m) for m in IFACES[tg[1]][1]))
    return "((%d, %s), (%s, %s))" % (si, t, "None" if d is None else "(Some (%s))" % coq_desc(d), "true" if ok else "false")
