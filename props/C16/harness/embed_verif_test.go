package goembed

// Injected by /verif (go test -overlay); not part of the repository.
//
// Generates package directories (trees + //go:embed directives) under
// $VERIF_TREES, runs the real goembed functions on them and writes one JSON
// record per case to $VERIF_OUT.  check.py afterwards runs the reference
// toolchain (`go list -e -json ./...`) on the very same directories and the
// Coq model on the recorded tree descriptions.

import (
	"embed"
	"encoding/hex"
	"encoding/json"
	"fmt"
	"go/ast"
	"go/parser"
	"go/token"
	"io/fs"
	"os"
	"path"
	"path/filepath"
	"sort"
	"strconv"
	"strings"
	"syscall"
	"testing"
	"unicode"
	"unicode/utf8"
	"unsafe"
)

type vrng struct{ s uint64 }

func (r *vrng) next() uint64 {
	r.s += 0x9e3779b97f4a7c15
	z := r.s
	z = (z ^ (z >> 30)) * 0xbf58476d1ce4e5b9
	z = (z ^ (z >> 27)) * 0x94d049bb133111eb
	return z ^ (z >> 31)
}
func (r *vrng) n(k int) int { return int(r.next() % uint64(k)) }
func (r *vrng) pick(xs []string) string {
	return xs[r.n(len(xs))]
}

// ---- tree description (shared with the Coq model through JSON) ----
type vnode struct {
	K string `json:"k"`           // f d l i
	D string `json:"d,omitempty"` // file data, hex
	E []vent `json:"e,omitempty"` // directory entries, sorted bytewise by name
	T *vnode `json:"t,omitempty"` // what Stat sees through a symlink (nil = dangling)
}
type vent struct {
	N string `json:"n"`
	V *vnode `json:"v"`
}

type vfileOut struct {
	N   string `json:"n"`
	D   string `json:"d"` // hex; "-" = nil data (directory entry of the FS table)
	Dir bool   `json:"dir,omitempty"`
}

type vrec struct {
	Kind    string     `json:"kind"`
	ID      string     `json:"id,omitempty"`
	Class   string     `json:"class,omitempty"`
	Root    string     `json:"root,omitempty"` // which module root the package lives in
	Tree    *vnode     `json:"tree,omitempty"`
	Pats    []string   `json:"pats,omitempty"`
	PatsHex []string   `json:"patshex,omitempty"`
	Err     string     `json:"err,omitempty"`
	EClass  int        `json:"eclass"`
	Files   []vfileOut `json:"files,omitempty"`
	Text    string     `json:"text,omitempty"` // directive stream: hex of the comment text
	HasDir  bool       `json:"hasdir,omitempty"`
	Key     string     `json:"key,omitempty"`
	What    string     `json:"what,omitempty"`
	Runes   []int      `json:"runes,omitempty"`
	Letter  []bool     `json:"letter,omitempty"`
	In      []vfileOut `json:"in,omitempty"`
	MFiles  []mfFile   `json:"mfiles,omitempty"` // multi-file packages: what LoadDirectives sees, in call order
	Vars    []mfVar    `json:"vars,omitempty"`
	Order   string     `json:"order,omitempty"`
	RefDir  bool       `json:"refdir,omitempty"`  // directive stream: the reference scanner sees a directive
	RefErr  int        `json:"referr,omitempty"`  // 0 ok, 1 invalid quoted string, 2 quoted string followed by a non-space
	RefPats []string   `json:"refpats,omitempty"` // reference parse (copy of go/build parseGoEmbed)
	NormHas bool       `json:"normhas,omitempty"` // real ParsePatterns on the text with Unicode spaces replaced by ' '
	NormErr int        `json:"normerr,omitempty"`
	NormPat []string   `json:"normpats,omitempty"`
}

// error classes shared with the model (Model.v: E_*)
func errClass(err error) int {
	if err == nil {
		return 0
	}
	s := err.Error()
	switch {
	case strings.Contains(s, "invalid pattern syntax"):
		return 1
	case strings.Contains(s, "in different module"):
		return 2
	case strings.Contains(s, ": invalid name "):
		return 3
	case strings.Contains(s, ": in invalid directory "):
		return 4
	case strings.Contains(s, ": in non-directory "):
		return 8
	case strings.Contains(s, "cannot embed irregular "):
		return 5
	case strings.Contains(s, "contains no embeddable files"):
		return 6
	case strings.Contains(s, "no matching files found"):
		return 7
	}
	return 99
}

// ---- name pools ----
var namesPlain = []string{"a", "b", "a.txt", "b.txt", "ab.txt", "c", "d1", "sub", "x.y.z", "A", "Z9", "data.bin"}
var namesHidden = []string{".hidden", "_under", ".a.txt", "_b", "._", "_", ".x.y", "..x"}
var namesBad = []string{".git", ".svn", ".hg", ".bzr", "x.", "...", "a*b", "a?b", "q\"t", "a'b", "a\\b", "a:b", "a|b", "a<b", "a>b", "a`b",
	"CON", "con", "con.txt", "NUL.x", "aux", "PrN", "COM1", "com9.a.b", "LPT9.txt", "lpt1", "×", "\U0001F600", "٣", "á", " x", "a b", "a\tb", "a\x7fb", "a;b"}
var namesOdd = []string{"a b", " lead", "trail ", "é.txt", "世界", "世", "ǅ", "ª", "-dash", "~t", "a~1", "[b]", "a[b]c", "{x}", "a,b", "a+b=c", "COM0", "com10", "LPT", "CONx", "gitx", ".gitx", "go.mod.txt", "all:x", "!", "#", "$", "%", "&", "(", ")", "@", "^", "a-b", "a]"}

func genName(r *vrng) (string, string) {
	switch k := r.n(26); {
	case k < 14:
		return r.pick(namesPlain), "plain"
	case k < 18:
		return r.pick(namesHidden), "hidden"
	case k < 20:
		return r.pick(namesBad), "bad"
	case k < 25:
		return r.pick(namesOdd), "odd"
	default:
		return "go.mod", "gomod"
	}
}

type gen struct {
	r       *vrng
	classes map[string]int
	extDir  string
	extN    int
}

func (g *gen) data() string {
	l := g.r.n(5)
	b := make([]byte, l)
	for i := range b {
		b[i] = byte(g.r.next())
	}
	return hex.EncodeToString(b)
}

func (g *gen) node(depth int, allowLink bool) *vnode {
	k := g.r.n(100)
	switch {
	case depth < 4 && k < 42:
		return g.dir(depth, allowLink)
	case allowLink && k >= 42 && k < 47:
		g.classes["node:symlink"]++
		switch g.r.n(4) {
		case 0:
			return &vnode{K: "l"} // dangling
		case 1:
			return &vnode{K: "l", T: &vnode{K: "f", D: g.data()}}
		default:
			d := depth
			if d < 2 {
				d = 2
			}
			return &vnode{K: "l", T: g.dir(d, false)}
		}
	case allowLink && k >= 47 && k < 49:
		g.classes["node:irregular"]++
		return &vnode{K: "i"}
	}
	return &vnode{K: "f", D: g.data()}
}

func (g *gen) dir(depth int, allowLink bool) *vnode {
	n := g.r.n(5)
	if depth == 0 {
		n = 1 + g.r.n(6)
	}
	d := &vnode{K: "d"}
	used := map[string]bool{}
	for i := 0; i < n; i++ {
		name, cls := genName(g.r)
		if used[name] || (depth == 0 && (name == "go.mod" || strings.HasSuffix(name, ".go"))) {
			continue
		}
		used[name] = true
		g.classes["name:"+cls]++
		var v *vnode
		if name == "go.mod" && g.r.n(4) > 0 {
			v = &vnode{K: "f", D: hex.EncodeToString([]byte("module x\n"))}
		} else {
			v = g.node(depth+1, allowLink)
		}
		d.E = append(d.E, vent{N: name, V: v})
	}
	if len(d.E) == 0 {
		g.classes["node:emptydir"]++
	}
	sort.Slice(d.E, func(i, j int) bool { return d.E[i].N < d.E[j].N })
	return d
}

// materialise a node at path p
func (g *gen) mk(p string, v *vnode) error {
	switch v.K {
	case "f":
		b, _ := hex.DecodeString(v.D)
		return os.WriteFile(p, b, 0o644)
	case "d":
		if err := os.MkdirAll(p, 0o755); err != nil {
			return err
		}
		for _, e := range v.E {
			if err := g.mk(filepath.Join(p, e.N), e.V); err != nil {
				return err
			}
		}
		return nil
	case "l":
		g.extN++
		target := filepath.Join(g.extDir, "t"+strconv.Itoa(g.extN))
		if v.T != nil {
			if err := g.mk(target, v.T); err != nil {
				return err
			}
		}
		return os.Symlink(target, p)
	case "i":
		return syscall.Mkfifo(p, 0o644)
	}
	return fmt.Errorf("bad kind")
}

// all relative paths of the tree (through symlinked directories too), with their kind
type vpath struct {
	p    string
	kind string
}

func collect(prefix string, v *vnode, out *[]vpath) {
	d := v
	if v.K == "l" && v.T != nil {
		d = v.T
	}
	if d.K != "d" {
		return
	}
	for _, e := range d.E {
		p := e.N
		if prefix != "" {
			p = prefix + "/" + e.N
		}
		*out = append(*out, vpath{p, e.V.K})
		collect(p, e.V, out)
	}
}

// ---- mixed pattern lists: state that must be reset / kept per pattern ----
// (the all: flag, the per-pattern have/pid bookkeeping, the per-directory file
// count, the dirOK cache): lists in which an all: pattern precedes or follows a
// plain pattern for a directory with hidden/underscore entries, the same
// directory with and without all:, globs over siblings one of which has no
// embeddable file, and two paths with the same base name in different parents.
type dinfo struct {
	p       string
	hidden  bool // a . or _ entry somewhere below (through real directories)
	noFiles bool // no file would be embedded without all: (empty, or only hidden / skipped entries)
}

func hiddenName(n string) bool { return n != "" && (n[0] == '.' || n[0] == '_') }

// returns (has hidden entry below, number of plainly embeddable files below)
func dirInfo(prefix string, v *vnode, out *[]dinfo) (bool, int) {
	hid, cnt := false, 0
	for _, e := range v.E {
		p := e.N
		if prefix != "" {
			p = prefix + "/" + e.N
		}
		h := hiddenName(e.N)
		if h {
			hid = true
		}
		switch e.V.K {
		case "d":
			ch, cc := dirInfo(p, e.V, out)
			if ch {
				hid = true
			}
			if !h {
				cnt += cc
			}
		case "f":
			if !h {
				cnt++
			}
		}
	}
	if prefix != "" {
		*out = append(*out, dinfo{prefix, hid, cnt == 0})
	}
	return hid, cnt
}

// index of the first component of p at which CheckPath must fail (bad name, or a
// directory holding go.mod), -1 if none; ok=false if p runs through a link
func firstBad(tree *vnode, comps []string) (int, bool) {
	n := tree
	for i, c := range comps {
		var nxt *vnode
		for _, e := range n.E {
			if e.N == c {
				nxt = e.V
			}
		}
		if nxt == nil {
			return -1, false
		}
		if IsBadName(c) {
			return i, true
		}
		if nxt.K == "d" {
			for _, e := range nxt.E {
				if e.N == "go.mod" && (e.V.K != "l" || e.V.T != nil) {
					return i, true
				}
			}
		} else if i < len(comps)-1 {
			return -1, false
		}
		n = nxt
	}
	return -1, true
}

func cachePair(r *vrng, tree *vnode, paths []vpath) []string {
	clean := map[string][]string{} // base name -> accepted paths
	for _, vp := range paths {
		comps := strings.Split(vp.p, "/")
		if j, ok := firstBad(tree, comps); ok && j < 0 && (vp.kind == "f" || vp.kind == "d") {
			b := comps[len(comps)-1]
			clean[b] = append(clean[b], vp.p)
		}
	}
	var cands [][]string
	for _, vp := range paths {
		comps := strings.Split(vp.p, "/")
		j, ok := firstBad(tree, comps)
		if !ok || j < 0 || j == len(comps)-1 {
			continue
		}
		for _, c := range comps[j+1:] {
			for _, p1 := range clean[c] {
				cands = append(cands, []string{p1, vp.p})
			}
		}
	}
	if len(cands) == 0 {
		return nil
	}
	return cands[r.n(len(cands))]
}

func globParent(p string) string {
	if j := strings.LastIndexByte(p, '/'); j >= 0 {
		return p[:j+1] + "*"
	}
	return "*"
}

func (g *gen) mixed(tree *vnode, paths []vpath) []string {
	var dirs []dinfo
	dirInfo("", tree, &dirs)
	if len(dirs) == 0 || len(paths) == 0 {
		return nil
	}
	r := g.r
	var hid, empt []dinfo
	for _, d := range dirs {
		if d.hidden {
			hid = append(hid, d)
		}
		if d.noFiles {
			empt = append(empt, d)
		}
	}
	pickDir := func() string {
		if len(hid) > 0 && r.n(4) > 0 {
			return hid[r.n(len(hid))].p
		}
		return dirs[r.n(len(dirs))].p
	}
	anyPath := func() string { return paths[r.n(len(paths))].p }
	d := pickDir()
	form := r.n(14)
	if form >= 12 {
		// a path below a directory that must be refused (bad name / nested module), preceded by an
		// accepted path whose base name occurs below that directory: a check cached under the wrong
		// key would let the second one through
		if pp := cachePair(r, tree, paths); pp != nil {
			g.classes["mixed:cachepair"]++
			return pp
		}
		form = 8
	}
	g.classes[fmt.Sprintf("mixed:%02d", form)]++
	switch form {
	case 0:
		return []string{"all:" + anyPath(), d}
	case 1:
		return []string{d, "all:" + d}
	case 2:
		return []string{"all:" + d, d}
	case 3:
		return []string{"all:" + mutate(r, d), d}
	case 4:
		return []string{"all:" + d, globParent(d)}
	case 5:
		return []string{d, "all:" + anyPath(), pickDir()}
	case 6:
		if len(empt) > 0 {
			e := empt[r.n(len(empt))].p
			if r.n(2) == 0 {
				return []string{"all:" + globParent(e)}
			}
			return []string{globParent(e)}
		}
		return []string{globParent(d)}
	case 7:
		if len(empt) > 0 {
			return []string{d, globParent(empt[r.n(len(empt))].p)}
		}
		return []string{d, globParent(d)}
	case 8:
		// two paths with the same base name in different parents
		byBase := map[string][]string{}
		for _, vp := range paths {
			b := vp.p[strings.LastIndexByte(vp.p, '/')+1:]
			byBase[b] = append(byBase[b], vp.p)
		}
		var keys []string
		for b, ps := range byBase {
			if len(ps) > 1 {
				keys = append(keys, b)
			}
		}
		sort.Strings(keys)
		if len(keys) > 0 {
			ps := byBase[keys[r.n(len(keys))]]
			a := r.n(len(ps))
			b := (a + 1 + r.n(len(ps)-1)) % len(ps)
			return []string{ps[a], ps[b]}
		}
		return []string{d, anyPath()}
	case 9:
		return []string{"all:" + anyPath(), anyPath(), d}
	case 10:
		return []string{"all:" + globParent(d), d, globParent(d)}
	default:
		return []string{d, d, "all:" + d}
	}
}

var rawPatterns = []string{"", ".", "..", "a/../b", "/a", "a/", "a//b", "./a", "[", "[]", "[]a]", "[a-]", "[a", "[^", "[^]", "a\\", "*[", "\\", "[\\]", "[a-\\]",
	"**", "*", "*/*", "*/*/*", "?", "??", "???", "*?", "*??", "?*", "*.txt", "a*", "*a*", "[a-b]", "[a-b]*", "[^a]*", "[^.]*", "[^._]*", "[.]*", "[_]*", ".*", "_*",
	"\\a", "\\a.txt", "\\*", "a\\*b", "[a\\]b]", "[]-a]", "[*]", "a[*]b", "a[?]b", "*/a", "*/a.txt", "sub/*", "*/go.mod", "go.mod", "*.mod",
	"all:", "all:.", "all:*", "all:all:x", "all:sub", "all:a", "all:..", "ALL:a", "all:/a", "all", "世*", "*界", "?界", "*??", "[一-鿿]*", "é*", "*.TXT",
	"a b", " lead", "trail ", "*\x80", "a\x00b", "[\xff]", "\xc3\xa9.txt", "sub/", "sub/.", "sub/..", "sub/./a", "con", "CON", "x.", "...", ".git", ".git/*", "*/.git"}

func mutate(r *vrng, p string) string {
	if p == "" {
		return p
	}
	rs := []rune(p)
	i := r.n(len(rs))
	switch r.n(9) {
	case 0:
		if rs[i] != '/' {
			rs[i] = '?'
		}
		return string(rs)
	case 1:
		j := strings.LastIndexByte(p, '/')
		return p[:j+1] + "*"
	case 2:
		j := strings.LastIndexByte(p, '/')
		base := p[j+1:]
		_, w := utf8.DecodeRuneInString(base)
		return p[:j+1] + base[:w] + "*"
	case 3:
		j := strings.LastIndexByte(p, '/')
		base := p[j+1:]
		if k := strings.LastIndexByte(base, '.'); k > 0 {
			return p[:j+1] + "*" + base[k:]
		}
		return p[:j+1] + "*" + base[len(base)-1:]
	case 4:
		if rs[i] != '/' && rs[i] != ']' && rs[i] != '-' && rs[i] != '\\' && rs[i] != '^' {
			return string(rs[:i]) + "[" + string(rs[i]) + "]" + string(rs[i+1:])
		}
		return p
	case 5:
		// escape every meta character: must match the literal name
		var b strings.Builder
		for _, c := range p {
			if strings.ContainsRune("*?[\\", c) {
				b.WriteByte('\\')
			}
			b.WriteRune(c)
		}
		return b.String()
	case 6:
		// first component globbed
		if j := strings.IndexByte(p, '/'); j >= 0 {
			return "*" + p[j:]
		}
		return "*"
	case 7:
		if j := strings.IndexByte(p, '/'); j >= 0 {
			return p[:j+1] + "*" + p[j:]
		}
		return p + "/*"
	}
	return p
}

func (g *gen) patterns(paths []vpath) []string {
	r := g.r
	n := 1 + r.n(3)
	if r.n(4) == 0 {
		n = 1
	}
	var out []string
	for i := 0; i < n; i++ {
		var p string
		k := r.n(100)
		switch {
		case k < 14 || len(paths) == 0:
			p = r.pick(rawPatterns)
			g.classes["pat:raw"]++
		case k < 55:
			p = paths[r.n(len(paths))].p
			g.classes["pat:literal"]++
		case k < 90:
			p = mutate(r, paths[r.n(len(paths))].p)
			g.classes["pat:glob"]++
		default:
			if len(out) > 0 {
				p = out[r.n(len(out))]
				g.classes["pat:duplicate"]++
			} else {
				p = "*"
			}
		}
		if r.n(5) == 0 && !strings.HasPrefix(p, "all:") {
			p = "all:" + p
			g.classes["pat:all"]++
		}
		out = append(out, p)
	}
	return out
}

// render patterns as the argument text of a //go:embed line
func bareOK(p string) bool {
	if p == "" || !utf8.ValidString(p) {
		return false
	}
	if p[0] == '"' || p[0] == '`' || p[0] == '\'' {
		return false
	}
	for _, c := range p {
		if unicode.IsSpace(c) || c < 0x20 || c == 0x7f || c == utf8.RuneError {
			return false
		}
	}
	return true
}

func renderArgs(r *vrng, pats []string) string {
	var parts []string
	for _, p := range pats {
		switch {
		case bareOK(p) && r.n(3) > 0:
			parts = append(parts, p)
		case utf8.ValidString(p) && !strings.ContainsAny(p, "`\r\n\x00") && r.n(2) == 0 && printable(p):
			parts = append(parts, "`"+p+"`")
		default:
			parts = append(parts, strconv.Quote(p))
		}
	}
	sep := " "
	if r.n(6) == 0 {
		sep = "\t "
	}
	return strings.Join(parts, sep)
}

func printable(p string) bool {
	for _, c := range p {
		if c < 0x20 || c == 0x7f {
			return false
		}
	}
	return true
}

func toOut(fs []FileData) []vfileOut {
	out := []vfileOut{}
	for _, f := range fs {
		o := vfileOut{N: f.Name, D: hex.EncodeToString(f.Data)}
		if f.Data == nil && strings.HasSuffix(f.Name, "/") {
			o.D = "-"
			o.Dir = true
		}
		out = append(out, o)
	}
	return out
}

func hexAll(xs []string) []string {
	out := []string{}
	for _, x := range xs {
		out = append(out, hex.EncodeToString([]byte(x)))
	}
	return out
}

// ---- the real embed.FS run over the table llgo would store ----
type vefile struct {
	name string
	data string
	hash [16]byte
}
type vefs struct{ files *[]vefile }

func asEmbedFS(entries []FileData) embed.FS {
	files := make([]vefile, len(entries))
	for i, e := range entries {
		files[i] = vefile{name: e.Name, data: string(e.Data)}
	}
	v := vefs{&files}
	return *(*embed.FS)(unsafe.Pointer(&v))
}

func vEmbedSplit(name string) (string, string) {
	name = strings.TrimSuffix(name, "/")
	if i := strings.LastIndexByte(name, '/'); i >= 0 {
		return name[:i], name[i+1:]
	}
	return ".", name
}

// checks the documented contract of the FS table; returns "" or a description
func checkFSTable(files, entries []FileData) string {
	// strictly sorted by (dir, elem)
	for i := 1; i < len(entries); i++ {
		d0, e0 := vEmbedSplit(entries[i-1].Name)
		d1, e1 := vEmbedSplit(entries[i].Name)
		if !(d0 < d1 || (d0 == d1 && e0 < e1)) {
			return fmt.Sprintf("entries %q, %q not strictly ordered by (dir, elem)", entries[i-1].Name, entries[i].Name)
		}
	}
	want := map[string]string{}
	dirs := map[string]bool{}
	for _, f := range files {
		want[f.Name] = string(f.Data)
		for d := path.Dir(f.Name); d != "." && d != "/"; d = path.Dir(d) {
			dirs[d+"/"] = true
		}
	}
	seen := map[string]int{}
	for _, e := range entries {
		seen[e.Name]++
		if strings.HasSuffix(e.Name, "/") {
			if !dirs[e.Name] {
				return fmt.Sprintf("directory entry %q is not a parent of any file", e.Name)
			}
			if e.Data != nil {
				return fmt.Sprintf("directory entry %q carries data", e.Name)
			}
		} else {
			w, ok := want[e.Name]
			if !ok {
				return fmt.Sprintf("entry %q is not an embedded file", e.Name)
			}
			if w != string(e.Data) {
				return fmt.Sprintf("bytes of %q changed", e.Name)
			}
		}
	}
	for n := range want {
		if seen[n] != 1 {
			return fmt.Sprintf("file %q present %d times", n, seen[n])
		}
	}
	for n := range dirs {
		if seen[n] != 1 {
			return fmt.Sprintf("parent directory %q present %d times", n, seen[n])
		}
	}
	// the real embed.FS on top of the table
	fsys := asEmbedFS(entries)
	for _, f := range files {
		b, err := fsys.ReadFile(f.Name)
		if err != nil {
			return fmt.Sprintf("embed.FS.ReadFile(%q): %v", f.Name, err)
		}
		if string(b) != string(f.Data) {
			return fmt.Sprintf("embed.FS.ReadFile(%q) returns other bytes", f.Name)
		}
	}
	var walked []string
	err := fs.WalkDir(fsys, ".", func(p string, d fs.DirEntry, err error) error {
		if err != nil {
			return err
		}
		if !d.IsDir() {
			walked = append(walked, p)
		}
		return nil
	})
	if err != nil {
		return "fs.WalkDir over embed.FS: " + err.Error()
	}
	names := []string{}
	for _, f := range files {
		names = append(names, f.Name)
	}
	sort.Strings(names)
	sort.Strings(walked)
	if strings.Join(names, "\x00") != strings.Join(walked, "\x00") {
		return fmt.Sprintf("fs.WalkDir over embed.FS visits %q, want %q", walked, names)
	}
	return ""
}

// copy of go/build.parseGoEmbed (go1.24) without positions; the error kind
// tells a quoted string followed by a non-space from other quoting errors
func refParseGoEmbed(args string) ([]string, int) {
	trimSpace := func() { args = strings.TrimLeftFunc(args, unicode.IsSpace) }
	var list []string
	for trimSpace(); args != ""; trimSpace() {
		var p string
	Switch:
		switch args[0] {
		default:
			i := len(args)
			for j, c := range args {
				if unicode.IsSpace(c) {
					i = j
					break
				}
			}
			p = args[:i]
			args = args[i:]
		case '`':
			var ok bool
			p, _, ok = strings.Cut(args[1:], "`")
			if !ok {
				return nil, 1
			}
			args = args[1+len(p)+1:]
		case '"':
			i := 1
			for ; i < len(args); i++ {
				if args[i] == '\\' {
					i++
					continue
				}
				if args[i] == '"' {
					q, err := strconv.Unquote(args[:i+1])
					if err != nil {
						return nil, 1
					}
					p = q
					args = args[i+1:]
					break Switch
				}
			}
			if i >= len(args) {
				return nil, 1
			}
		}
		if args != "" {
			r, _ := utf8.DecodeRuneInString(args)
			if !unicode.IsSpace(r) {
				return nil, 2
			}
		}
		list = append(list, p)
	}
	return list, 0
}

func normSpaces(text string) string {
	var b strings.Builder
	for _, c := range text {
		if unicode.IsSpace(c) && c != ' ' && c != '\t' {
			b.WriteByte(' ')
		} else {
			b.WriteRune(c)
		}
	}
	return b.String()
}

// ---- multi-file packages for LoadDirectives ----
type mfSpec struct {
	Names []string `json:"names"`
	Doc   []string `json:"doc"` // comment texts
}
type mfDecl struct {
	Doc   []string `json:"doc"`
	Specs []mfSpec `json:"specs"`
}
type mfFile struct {
	Name  string   `json:"name"`
	Imp   bool     `json:"imp"`
	Decls []mfDecl `json:"decls"`
	src   string
}
type mfVar struct {
	Name  string     `json:"name"`
	Files []vfileOut `json:"files"`
}

func loadClass(err error) int {
	if err == nil {
		return 0
	}
	s := err.Error()
	switch {
	case strings.Contains(s, "misplaced go:embed directive"):
		return 20
	case strings.Contains(s, "invalid //go:embed"):
		return 21
	case strings.Contains(s, "cannot apply to multiple vars"):
		return 22
	case strings.Contains(s, "only allowed in Go files that import"):
		return 23
	}
	return errClass(err)
}

// one generated file: imports embed or not, a few var declarations
func (g *gen) mfFile(idx int, forceDirective bool) mfFile {
	r := g.r
	f := mfFile{Name: fmt.Sprintf("f%d.go", idx), Imp: r.n(10) < 8}
	single := []string{"a.txt", "b.txt", "d/c.txt", "*.bin", "\"a.txt\"", "`b.txt`"}
	multi := []string{"d", "*.txt", "all:d", "a.txt b.txt", "d/c.txt a.txt"}
	var body strings.Builder
	usesFS := false
	nd := 1 + r.n(3)
	for k := 0; k < nd; k++ {
		name := fmt.Sprintf("v%d_%d", idx, k)
		kind := r.n(20)
		if kind >= 12 {
			kind = []int{0, 1, 3, 5, 8, 9, 10, 1}[kind-12]
		}
		if forceDirective && k == 0 {
			kind = 1 + r.n(3)
		}
		pat := single[r.n(len(single))]
		typ := []string{"string", "[]byte"}[r.n(2)]
		if f.Imp && r.n(3) == 0 {
			pat = multi[r.n(len(multi))]
			typ = "embed.FS"
		}
		if typ == "embed.FS" {
			usesFS = true
		}
		dir := "//go:embed " + pat
		switch kind {
		case 0:
			body.WriteString("var " + name + " int\n\n")
			f.Decls = append(f.Decls, mfDecl{Doc: []string{}, Specs: []mfSpec{{Names: []string{name}, Doc: []string{}}}})
		case 1, 2:
			body.WriteString(dir + "\nvar " + name + " " + typ + "\n\n")
			f.Decls = append(f.Decls, mfDecl{Doc: []string{dir}, Specs: []mfSpec{{Names: []string{name}, Doc: []string{}}}})
		case 3, 4:
			body.WriteString("var (\n\t" + dir + "\n\t" + name + " " + typ + "\n)\n\n")
			f.Decls = append(f.Decls, mfDecl{Doc: []string{}, Specs: []mfSpec{{Names: []string{name}, Doc: []string{dir}}}})
		case 5:
			body.WriteString("var (\n\t" + name + "m int\n\t" + dir + "\n\t" + name + " " + typ + "\n)\n\n")
			f.Decls = append(f.Decls, mfDecl{Doc: []string{}, Specs: []mfSpec{{Names: []string{name + "m"}, Doc: []string{}}, {Names: []string{name}, Doc: []string{dir}}}})
		case 6:
			body.WriteString(dir + "\nvar (\n\t" + name + " " + typ + "\n\t" + name + "m int\n)\n\n")
			f.Decls = append(f.Decls, mfDecl{Doc: []string{dir}, Specs: []mfSpec{{Names: []string{name}, Doc: []string{}}, {Names: []string{name + "m"}, Doc: []string{}}}})
		case 7:
			body.WriteString(dir + "\nvar " + name + ", " + name + "b " + typ + "\n\n")
			f.Decls = append(f.Decls, mfDecl{Doc: []string{dir}, Specs: []mfSpec{{Names: []string{name, name + "b"}, Doc: []string{}}}})
		case 8:
			c := "// go:embed is described in package embed"
			body.WriteString(c + "\nvar " + name + " int\n\n")
			f.Decls = append(f.Decls, mfDecl{Doc: []string{c}, Specs: []mfSpec{{Names: []string{name}, Doc: []string{}}}})
		case 9:
			if f.Imp {
				body.WriteString("//go:embed a.txt\n//go:embed b.txt\nvar " + name + " embed.FS\n\n")
				f.Decls = append(f.Decls, mfDecl{Doc: []string{"//go:embed a.txt", "//go:embed b.txt"}, Specs: []mfSpec{{Names: []string{name}, Doc: []string{}}}})
				usesFS = true
			} else {
				body.WriteString("// a plain comment\n" + dir + "\nvar " + name + " " + typ + "\n\n")
				f.Decls = append(f.Decls, mfDecl{Doc: []string{"// a plain comment", dir}, Specs: []mfSpec{{Names: []string{name}, Doc: []string{}}}})
			}
		case 10:
			body.WriteString("var " + name + " = 1\n\n")
			f.Decls = append(f.Decls, mfDecl{Doc: []string{}, Specs: []mfSpec{{Names: []string{name}, Doc: []string{}}}})
		default:
			body.WriteString("//go:embed\nvar " + name + " " + typ + "\n\n")
			f.Decls = append(f.Decls, mfDecl{Doc: []string{"//go:embed"}, Specs: []mfSpec{{Names: []string{name}, Doc: []string{}}}})
		}
	}
	imp := ""
	_ = usesFS
	if f.Imp {
		imp = "import \"embed\"\n\n"
		body.WriteString("var _ embed.FS\n")
		f.Decls = append(f.Decls, mfDecl{Doc: []string{}, Specs: []mfSpec{{Names: []string{"_"}, Doc: []string{}}}})
	}
	f.src = "package p\n\n" + imp + body.String()
	return f
}

func TestVerif(t *testing.T) {
	seed, _ := strconv.ParseUint(os.Getenv("VERIF_SEED"), 10, 64)
	n, _ := strconv.Atoi(os.Getenv("VERIF_N"))
	if n == 0 {
		n = 300
	}
	nd, _ := strconv.Atoi(os.Getenv("VERIF_ND"))
	base := os.Getenv("VERIF_TREES")
	if base == "" {
		t.Fatal("VERIF_TREES not set")
	}
	f, err := os.Create(os.Getenv("VERIF_OUT"))
	if err != nil {
		t.Fatal(err)
	}
	defer f.Close()
	enc := json.NewEncoder(f)
	enc.SetEscapeHTML(false)

	g := &gen{r: &vrng{s: seed*7919 + 16}, classes: map[string]int{}}
	// two module roots: a plain one and one whose absolute path contains glob
	// meta characters (the go tool quotes the package directory before globbing)
	roots := map[string]string{"plain": filepath.Join(base, "plain", "m"), "meta": filepath.Join(base, "w[1]x", "m")}
	for _, root := range roots {
		if err := os.MkdirAll(root, 0o755); err != nil {
			t.Fatal(err)
		}
		if err := os.WriteFile(filepath.Join(root, "go.mod"), []byte("module vm\n\ngo 1.24\n"), 0o644); err != nil {
			t.Fatal(err)
		}
	}
	g.extDir = filepath.Join(base, "ext")
	os.MkdirAll(g.extDir, 0o755)

	viol := func(key, what string, rec vrec) {
		rec.Kind, rec.Key, rec.What = "viol", key, what
		enc.Encode(rec)
	}

	for i := -1; i < n; i++ {
		rootName := "plain"
		if i%12 == 11 {
			rootName = "meta"
		}
		id := fmt.Sprintf("c%05d", i)
		pkgDir := filepath.Join(roots[rootName], id)
		tree := g.dir(0, true)
		if i < 0 {
			// the witness of theorem rejects_through_symlink_refuted (Props.v), replayed on the real code
			id = "w00000"
			pkgDir = filepath.Join(roots[rootName], id)
			tree = &vnode{K: "d", E: []vent{{N: "l", V: &vnode{K: "l", T: &vnode{K: "d", E: []vent{{N: "f.txt", V: &vnode{K: "f", D: "6869"}}}}}}}}
		}
		if err := g.mk(pkgDir, tree); err != nil {
			t.Fatalf("materialise %s: %v", id, err)
		}
		var paths []vpath
		collect("", tree, &paths)
		pats := g.patterns(paths)
		if i%5 == 1 || i%5 == 3 {
			if mp := g.mixed(tree, paths); mp != nil {
				pats = mp
			}
		}
		if i < 0 {
			pats = []string{"l/f.txt"}
		}
		args := renderArgs(g.r, pats)
		src := "package p\n\nimport \"embed\"\n\n//go:embed " + args + "\nvar v embed.FS\n"
		gofile := filepath.Join(pkgDir, "x.go")
		if err := os.WriteFile(gofile, []byte(src), 0o644); err != nil {
			t.Fatal(err)
		}

		tree.E = append(tree.E, vent{N: "x.go", V: &vnode{K: "f", D: hex.EncodeToString([]byte(src))}})
		sort.Slice(tree.E, func(i, j int) bool { return tree.E[i].N < tree.E[j].N })

		files, rerr := ResolvePatterns(pkgDir, pats)
		rec := vrec{Kind: "res", ID: id, Root: rootName, Tree: tree, Pats: nil, PatsHex: hexAll(pats), EClass: errClass(rerr), Text: hex.EncodeToString([]byte(args))}
		if rerr != nil {
			rec.Err = rerr.Error()
		} else {
			rec.Files = toOut(files)
		}
		enc.Encode(rec)
		small := vrec{ID: id, Root: rootName, PatsHex: rec.PatsHex, Tree: tree}

		// bytes: what is delivered is what is on disk; names sorted, unique
		for j, fd := range files {
			b, err := os.ReadFile(filepath.Join(pkgDir, filepath.FromSlash(fd.Name)))
			if err != nil || string(b) != string(fd.Data) {
				viol("embed-bytes-differ", "ResolvePatterns delivers bytes that differ from the file "+fd.Name, small)
			}
			if j > 0 && !(files[j-1].Name < fd.Name) {
				viol("embed-result-not-sorted-unique", "ResolvePatterns result not strictly sorted", small)
			}
		}

		// the same through the directive: LoadDirectives on the generated source
		fset := token.NewFileSet()
		af, perr := parser.ParseFile(fset, gofile, nil, parser.ParseComments)
		if perr == nil {
			vm, lerr := LoadDirectives(fset, []*ast.File{af})
			if (lerr == nil) != (rerr == nil) {
				viol("embed-loaddirectives-differs", fmt.Sprintf("LoadDirectives err=%v but ResolvePatterns err=%v for args %q", lerr, rerr, args), small)
			} else if lerr == nil {
				a, _ := json.Marshal(toOut(vm["v"].Files))
				b, _ := json.Marshal(toOut(files))
				if string(a) != string(b) {
					viol("embed-loaddirectives-differs", fmt.Sprintf("LoadDirectives and ResolvePatterns deliver different files for args %q", args), small)
				}
			} else if errClass(lerr) != errClass(rerr) {
				viol("embed-loaddirectives-differs", fmt.Sprintf("LoadDirectives err=%v but ResolvePatterns err=%v for args %q", lerr, rerr, args), small)
			}
		}

		// the FS table
		if rerr == nil {
			entries := BuildFSEntries(files)
			enc.Encode(vrec{Kind: "fs", ID: id, In: toOut(files), Files: toOut(entries)})
			if msg := checkFSTable(files, entries); msg != "" {
				viol("embed-fs-table", msg, small)
			}
			// input bytes must not be aliased by the table
			for _, e := range entries {
				for _, fd := range files {
					if e.Name == fd.Name && len(fd.Data) > 0 && &e.Data[0] == &fd.Data[0] {
						viol("embed-fs-table-aliases-input", "BuildFSEntries shares the backing array of "+fd.Name, small)
					}
				}
			}
		}
	}

	// FS table on synthetic file lists (deeper, shared prefixes, names around '/')
	for i := 0; i < n/3+20; i++ {
		cnt := 1 + g.r.n(6)
		set := map[string][]byte{}
		elems := []string{"a", "b", "a.b", "a b", "a0", "a!", "a-", "é", "ab", "A", "_", ".x", "a~"}
		for j := 0; j < cnt; j++ {
			depth := 1 + g.r.n(4)
			var parts []string
			for k := 0; k < depth; k++ {
				parts = append(parts, g.r.pick(elems))
			}
			name := strings.Join(parts, "/")
			b, _ := hex.DecodeString(g.data())
			set[name] = b
		}
		// tree-consistent: no file is also a directory
		names := []string{}
		for name := range set {
			names = append(names, name)
		}
		sort.Strings(names)
		var files []FileData
		for _, name := range names {
			isDir := false
			for _, o := range names {
				if strings.HasPrefix(o, name+"/") {
					isDir = true
				}
			}
			if !isDir {
				files = append(files, FileData{Name: name, Data: set[name]})
			}
		}
		// BuildFSEntries must not depend on the input order
		if g.r.n(2) == 0 {
			for a, b := 0, len(files)-1; a < b; a, b = a+1, b-1 {
				files[a], files[b] = files[b], files[a]
			}
		}
		entries := BuildFSEntries(files)
		enc.Encode(vrec{Kind: "fs", ID: fmt.Sprintf("s%05d", i), In: toOut(files), Files: toOut(entries)})
		if msg := checkFSTable(files, entries); msg != "" {
			viol("embed-fs-table", msg, vrec{ID: fmt.Sprintf("s%05d", i), In: toOut(files)})
		}
		g.classes["fs:synthetic"]++
	}

	// ---- multi-file packages: the embed import is a per-file requirement ----
	nm, _ := strconv.Atoi(os.Getenv("VERIF_NM"))
	mfRoot := filepath.Join(base, "mf", "m")
	os.MkdirAll(mfRoot, 0o755)
	os.WriteFile(filepath.Join(mfRoot, "go.mod"), []byte("module vm\n\ngo 1.24\n"), 0o644)
	for i := 0; i < nm; i++ {
		id := fmt.Sprintf("mf%05d", i)
		pkgDir := filepath.Join(mfRoot, id)
		tree := &vnode{K: "d", E: []vent{
			{N: "a.txt", V: &vnode{K: "f", D: hex.EncodeToString([]byte("A" + id))}},
			{N: "b.txt", V: &vnode{K: "f", D: hex.EncodeToString([]byte("bee"))}},
			{N: "d", V: &vnode{K: "d", E: []vent{{N: ".h", V: &vnode{K: "f", D: "00"}}, {N: "c.txt", V: &vnode{K: "f", D: hex.EncodeToString([]byte("sea"))}}}}},
			{N: "x.bin", V: &vnode{K: "f", D: "ff00"}},
		}}
		nf := 2 + g.r.n(2)
		var mfs []mfFile
		for k := 0; k < nf; k++ {
			f := g.mfFile(k, k < 2)
			if i%4 == 0 && k < 2 {
				// the boundary pair: exactly one of the first two files imports embed
				f = g.mfFile(k, true)
				for f.Imp != (k == (i/4)%2) {
					f = g.mfFile(k, true)
				}
			}
			mfs = append(mfs, f)
			tree.E = append(tree.E, vent{N: f.Name, V: &vnode{K: "f", D: hex.EncodeToString([]byte(f.src))}})
		}
		sort.Slice(tree.E, func(a, b int) bool { return tree.E[a].N < tree.E[b].N })
		if err := g.mk(pkgDir, tree); err != nil {
			t.Fatalf("materialise %s: %v", id, err)
		}
		for _, order := range []string{"fwd", "rev"} {
			seq := append([]mfFile{}, mfs...)
			if order == "rev" {
				for a, b := 0, len(seq)-1; a < b; a, b = a+1, b-1 {
					seq[a], seq[b] = seq[b], seq[a]
				}
			}
			fset := token.NewFileSet()
			var afs []*ast.File
			for _, f := range seq {
				af, perr := parser.ParseFile(fset, filepath.Join(pkgDir, f.Name), nil, parser.ParseComments)
				if perr != nil {
					t.Fatalf("generated source does not parse: %v\n%s", perr, f.src)
				}
				afs = append(afs, af)
			}
			vm, lerr := LoadDirectives(fset, afs)
			rec := vrec{Kind: "mf", ID: id, Order: order, Tree: tree, MFiles: seq, EClass: loadClass(lerr)}
			if lerr != nil {
				rec.Err = lerr.Error()
			} else {
				for _, f := range seq {
					for _, d := range f.Decls {
						for _, sp := range d.Specs {
							if vd, ok := vm[sp.Names[0]]; ok && len(sp.Names) == 1 {
								rec.Vars = append(rec.Vars, mfVar{Name: sp.Names[0], Files: toOut(vd.Files)})
							}
						}
					}
				}
				if len(rec.Vars) != len(vm) {
					viol("embed-loaddirectives-unexpected-var", "LoadDirectives returns variables that carry no directive", vrec{ID: id})
				}
			}
			enc.Encode(rec)
			// property: every variable accepted with a directive lives in a file that imports embed
			if lerr == nil {
				for _, f := range seq {
					for _, d := range f.Decls {
						for _, sp := range d.Specs {
							if _, ok := vm[sp.Names[0]]; ok && !f.Imp {
								viol("embed-directive-without-import-accepted", "LoadDirectives accepts the directive of "+sp.Names[0]+" in "+f.Name+", which does not import embed", vrec{ID: id, Order: order, MFiles: seq})
							}
						}
					}
				}
			}
		}
		g.classes["mf:packages"]++
	}

	// ---- directive stream: comment text -> patterns ----
	dalpha := []string{" ", " ", "\t", "\"", "\"", "`", "'", "\\", "a", "b", "x", "n", "u", "0", "1", "7", "*", ":", ".", "/", " ", "é", " ", "\v", "\f", "\u0085", "all:", "\\\"", "\\\\", "\\x41", "\\u00e9", "\\101", "\\n", "'a'", "\"a\"", "`b`", "''", "'\\n'", "'é'", "'ab'"}
	dprefix := []string{"//go:embed ", "//go:embed ", "//go:embed ", "//go:embed\t", "//go:embed", "// go:embed ", "//\tgo:embed ", "//go:embedx ", "//go:embed\v", "//go:embed ", "//go:embed  ", "//go:Embed ", "//  go:embed\t"}
	for i := 0; i < nd; i++ {
		var text string
		cls := "random"
		if i%3 == 0 {
			// structured: well-formed arguments in a random style
			cls = "structured"
			k := 1 + g.r.n(3)
			var want []string
			for j := 0; j < k; j++ {
				l := 1 + g.r.n(4)
				var b strings.Builder
				for q := 0; q < l; q++ {
					b.WriteString(g.r.pick([]string{"a", "b", ".", "/", "*", " ", "\"", "\\", "é", "'", "`", "\t", "x"}))
				}
				want = append(want, b.String())
			}
			text = "//go:embed " + renderArgs(g.r, want)
		} else {
			l := g.r.n(7)
			var b strings.Builder
			b.WriteString(g.r.pick(dprefix))
			for q := 0; q < l; q++ {
				b.WriteString(g.r.pick(dalpha))
			}
			text = b.String()
		}
		if strings.ContainsAny(text, "\n\r") {
			continue
		}
		id := fmt.Sprintf("d%05d", i)
		pkgDir := filepath.Join(roots["plain"], id)
		os.MkdirAll(pkgDir, 0o755)
		src := "package p\n\nimport \"embed\"\n\n" + text + "\nvar v embed.FS\n"
		gofile := filepath.Join(pkgDir, "x.go")
		os.WriteFile(gofile, []byte(src), 0o644)
		fset := token.NewFileSet()
		af, perr := parser.ParseFile(fset, gofile, nil, parser.ParseComments)
		if perr != nil {
			t.Fatalf("generated source does not parse: %v\n%s", perr, src)
		}
		var doc *ast.CommentGroup
		for _, d := range af.Decls {
			if gd, ok := d.(*ast.GenDecl); ok && gd.Tok == token.VAR {
				doc = gd.Doc
			}
		}
		pats, has, derr := ParsePatterns(doc)
		rec := vrec{Kind: "dir", ID: id, Class: cls, Text: hex.EncodeToString([]byte(text)), HasDir: has, PatsHex: hexAll(pats)}
		if derr != nil {
			rec.Err = derr.Error()
			rec.EClass = 1
		}
		if strings.HasPrefix(text, "//go:embed ") || strings.HasPrefix(text, "//go:embed\t") {
			rec.RefDir = true
			rp, re := refParseGoEmbed(text[len("//go:embed"):])
			rec.RefErr, rec.RefPats = re, hexAll(rp)
		}
		np, nh, nerr := ParsePatterns(&ast.CommentGroup{List: []*ast.Comment{{Text: normSpaces(doc.List[len(doc.List)-1].Text)}}})
		rec.NormHas, rec.NormPat = nh, hexAll(np)
		if nerr != nil {
			rec.NormErr = 1
		}
		enc.Encode(rec)
		g.classes["dir:"+cls]++
	}

	// unicode.IsLetter on every non-ASCII rune the generators use (the model has a table)
	rs := map[rune]bool{}
	for _, pool := range [][]string{namesPlain, namesHidden, namesBad, namesOdd, rawPatterns} {
		for _, s := range pool {
			for _, c := range s {
				if c >= 0x80 && c != utf8.RuneError {
					rs[c] = true
				}
			}
		}
	}
	lrec := vrec{Kind: "letters"}
	for c := range rs {
		lrec.Runes = append(lrec.Runes, int(c))
	}
	sort.Ints(lrec.Runes)
	for _, c := range lrec.Runes {
		lrec.Letter = append(lrec.Letter, unicode.IsLetter(rune(c)))
	}
	enc.Encode(lrec)

	// IsBadName on every pool name (model: bad_name)
	for _, pool := range [][]string{namesPlain, namesHidden, namesBad, namesOdd, rawPatterns} {
		for _, s := range pool {
			if utf8.ValidString(s) {
				ec := 0
				if IsBadName(s) {
					ec = 1
				}
				enc.Encode(vrec{Kind: "bad", Text: hex.EncodeToString([]byte(s)), EClass: ec})
			}
			ec := 0
			if ValidPattern(s) {
				ec = 1
			}
			enc.Encode(vrec{Kind: "valid", Text: hex.EncodeToString([]byte(s)), EClass: ec})
		}
	}
	cl := []string{}
	for k, v := range g.classes {
		cl = append(cl, fmt.Sprintf("%s=%d", k, v))
	}
	sort.Strings(cl)
	enc.Encode(vrec{Kind: "classes", What: strings.Join(cl, " ")})
}
