//go:build !llgo

package cl_test

// Injected by /verif (go test -overlay); not part of the repository.
// Compiles a package with several go:embed variables of the same file through
// cl.NewPackage and writes the LLVM IR to $VERIF_OUT for check.py to inspect:
// every []byte variable must have a backing store of its own.

import (
	"encoding/json"
	"go/ast"
	"go/parser"
	"go/token"
	"go/types"
	"os"
	"path/filepath"
	"runtime"
	"testing"

	"github.com/goplus/gogen/packages"
	"github.com/goplus/llgo/cl"
	"github.com/goplus/llgo/ssa/ssatest"
	"golang.org/x/tools/go/ssa"
	"golang.org/x/tools/go/ssa/ssautil"
)

func TestVerif(t *testing.T) {
	dir := t.TempDir()
	var spec struct {
		Files map[string]string `json:"files"`
		Src   string            `json:"src"`
	}
	b, err := os.ReadFile(os.Getenv("VERIF_IN"))
	if err != nil {
		t.Fatal(err)
	}
	if err := json.Unmarshal(b, &spec); err != nil {
		t.Fatal(err)
	}
	for rel, data := range spec.Files {
		p := filepath.Join(dir, rel)
		os.MkdirAll(filepath.Dir(p), 0o755)
		if err := os.WriteFile(p, []byte(data), 0o644); err != nil {
			t.Fatal(err)
		}
	}
	file := filepath.Join(dir, "main.go")
	fset := token.NewFileSet()
	f, err := parser.ParseFile(fset, file, spec.Src, parser.ParseComments)
	if err != nil {
		t.Fatalf("ParseFile: %v", err)
	}
	files := []*ast.File{f}
	pkg := types.NewPackage(f.Name.Name, f.Name.Name)
	imp := packages.NewImporter(fset)
	foo, _, err := ssautil.BuildPackage(&types.Config{Importer: imp}, fset, pkg, files, ssa.SanityCheckFunctions|ssa.InstantiateGenerics)
	if err != nil {
		t.Fatalf("BuildPackage: %v", err)
	}
	prog := ssatest.NewProgramEx(t, nil, imp)
	prog.TypeSizes(types.SizesFor("gc", runtime.GOARCH))
	ret, err := cl.NewPackage(prog, foo, files)
	if err != nil {
		t.Fatalf("cl.NewPackage: %v", err)
	}
	out, _ := json.Marshal(map[string]string{"kind": "ir", "ir": ret.String()})
	if err := os.WriteFile(os.Getenv("VERIF_OUT"), out, 0o644); err != nil {
		t.Fatal(err)
	}
}
