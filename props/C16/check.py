"""C16 - go:embed delivers exactly the files and bytes the go tool would embed.

Three-way correspondence on generated package directories:
  Coq model (coq/theories/C16/Model.v)  vs  the real internal/goembed functions (go test -overlay)
  vs  the reference toolchain (`go list -e -json ./...` on the same directories).
"""
import json, os, re, collections
from concurrent.futures import ThreadPoolExecutor
import vlib
from vlib import coq_list
import e2e

H = os.path.join(os.path.dirname(os.path.abspath(__file__)), "harness")


def nb(b):
    if not b:
        return "(@nil N)"          # typed: a shard may consist of this one term
    return "[" + ";".join(str(x) for x in b) + "]%N"


def hb(h):
    return nb(bytes.fromhex(h))


def sb(s):
    return nb(s.encode("utf-8"))


def tree_term(v):
    k = v["k"]
    if k == "f":
        return "File %s" % hb(v.get("d", ""))
    if k == "d":
        return "Dir " + coq_list(["(%s, %s)" % (sb(e["n"]), tree_term(e["v"])) for e in v.get("e", [])])
    if k == "l":
        return "Link (Some (%s))" % tree_term(v["t"]) if v.get("t") else "Link None"
    return "Irreg"


def files_term(fs):
    return coq_list(["(%s, %s)" % (sb(f["n"]), hb(f["d"])) for f in fs])


def entries_term(fs):
    return coq_list(["(%s, %s)" % (sb(f["n"]), "None" if f["d"] == "-" else "Some " + hb(f["d"])) for f in fs])


GO_CLASSES = [("invalid pattern syntax", 1), ("in different module", 2), (": invalid name ", 3),
              (": in invalid directory ", 4), ("cannot embed irregular", 5), ("contains no embeddable files", 6),
              ("no matching files found", 7), ("in non-directory", 8), ("invalid input file name", 9),
              ("case-insensitive file name collision", 10)]


def go_class(err):
    if not err:
        return 0
    for k, v in GO_CLASSES:
        if k in err:
            return v
    return 99


def go_list(root):
    """{package dir name: go list record} for every package below the module root"""
    rc, out = vlib.sh(["go", "list", "-e", "-json=ImportPath,EmbedPatterns,EmbedFiles,Error", "./..."],
                      cwd=root, env=vlib.goenv(), timeout=900)
    res, dec, i = {}, json.JSONDecoder(), 0
    start = out.find("{")
    if start < 0:
        return rc, res, out
    out = out[start:]
    try:
        while i < len(out):
            while i < len(out) and out[i].isspace():
                i += 1
            if i >= len(out):
                break
            o, i = dec.raw_decode(out, i)
            res[o["ImportPath"].split("/")[-1]] = o
    except ValueError:
        pass
    return rc, res, out


def safe_first(name):
    c = name.encode("utf-8")[:1]
    return bool(c) and (c.isalnum() and c[0] < 128 or c in b"._/" or c[0] >= 128)


def strl(xs):
    return "(@nil str)" if not xs else coq_list(xs)


def gofile_term(f):
    decls = []
    for d in f["decls"]:
        specs = ["{| vs_names := %s; vs_doc := %s |}" % (strl([sb(n) for n in sp["names"]]), strl([sb(c) for c in sp.get("doc") or []]))
                 for sp in d["specs"]]
        decls.append("{| vd_doc := %s; vd_specs := %s |}" % (strl([sb(c) for c in d.get("doc") or []]), coq_list(specs)))
    return "{| gf_embed := %s; gf_decls := %s |}" % ("true" if f["imp"] else "false", coq_list(decls))


E2E_MAIN = '''package main

import (
	"embed"

	"verifprog/sub"
)

//go:embed data/greeting.txt
var a []byte

//go:embed data/greeting.txt
var b []byte

//go:embed "data/greeting.txt"
var c []byte

//go:embed data/greet*.txt
var d []byte

//go:embed data/greeting.txt
var s string

//go:embed data/other.txt
var o []byte

//go:embed data
var fsys embed.FS

//go:embed all:data
var fsall embed.FS

func show(tag string) {
	println(tag, "a="+string(a), "b="+string(b), "c="+string(c), "d="+string(d), "s="+s, "o="+string(o))
}

func main() {
	show("init")
	a[0] = 'X'
	c[len(c)-1] = 'Y'
	show("after-write")
	println("distinct", &a[0] != &b[0], &a[0] != &c[0], &a[0] != &d[0], &b[0] != &c[0], &b[0] != &d[0], &c[0] != &d[0], &a[0] != &o[0])
	fb, err := fsys.ReadFile("data/greeting.txt")
	println("fs", string(fb), err == nil)
	fb[0] = 'Z'
	fb2, _ := fsys.ReadFile("data/greeting.txt")
	println("fs-again", string(fb2))
	es, _ := fsys.ReadDir("data")
	for _, e := range es {
		println("fs-entry", e.Name(), e.IsDir())
	}
	es, _ = fsall.ReadDir("data")
	for _, e := range es {
		println("fsall-entry", e.Name(), e.IsDir())
	}
	_, err = fsys.ReadFile("data/.hidden")
	println("fs-hidden-absent", err != nil)
	hb, err := fsall.ReadFile("data/.hidden")
	println("fsall-hidden", string(hb), err == nil)
	sub.Run()
	show("end")
}
'''

E2E_SUB = '''package sub

import _ "embed"

//go:embed x.txt
var P []byte

//go:embed x.txt
var Q []byte

//go:embed x.txt
var S string

func Run() {
	println("sub-init", string(P), string(Q), S)
	Q[0] = '#'
	println("sub-after", string(P), string(Q), S, &P[0] != &Q[0])
}
'''


def e2e_embed(ck):
    """compile one program with several go:embed variables of the same file with llgo (from the
    working tree) and with the reference toolchain, run both, return (status, llgo_out, go_out, log)"""
    rng = ck.rng.__class__(ck.seed * 31 + 16)
    word = lambda: "".join(rng.choice("abcdefghijklmnopqrstuvwxyz ,") for _ in range(rng.randint(3, 14)))
    d = os.path.join(ck.work, "e2eprog")
    e2e.write_module(d, {"main.go": E2E_MAIN, "sub/sub.go": E2E_SUB, "sub/x.txt": "x" + word(),
                         "data/greeting.txt": "g" + word(), "data/other.txt": "o" + word(),
                         "data/.hidden": "h" + word(), "data/_skip.txt": "u" + word(), "data/more/z.txt": "z" + word()})
    rc, out = e2e.go_build(d, os.path.join(d, "prog_go"))
    if rc != 0:
        return "go-build-failed", "", "", out
    _, go_o, go_e = e2e.run_plain(os.path.join(d, "prog_go"), timeout=60)
    L = e2e.LLGo(ck)
    if not L.ok:
        return "llgo-build-failed", "", go_e, L.buildlog
    rc, out = L.build(d, os.path.join(d, "prog_llgo"))
    if rc != 0:
        return "llgo-compile-failed", "", go_e, out
    rc, ll_o, ll_e = L.run_bin(os.path.join(d, "prog_llgo"), timeout=60)
    return "ran", ll_o + ll_e, go_o + go_e, "rc=%d" % rc


IR_SRC = '''package foo

import "embed"

//go:embed data/g.txt
var a []byte

//go:embed data/g.txt
var b []byte

//go:embed "data/g.txt"
var c []byte

//go:embed data/g*.txt
var d []byte

//go:embed data/g.txt
var s string

//go:embed data/o.txt
var o []byte

//go:embed data/o.txt
var o2 []byte

//go:embed data
var fsys embed.FS

func use() int { return len(a) + len(b) + len(c) + len(d) + len(s) + len(o) + len(o2) }
'''
IR_BYTES = {"a": "data/g.txt", "b": "data/g.txt", "c": "data/g.txt", "d": "data/g.txt", "o": "data/o.txt", "o2": "data/o.txt"}


def ll_unescape(s):
    out, i = bytearray(), 0
    while i < len(s):
        if s[i] == "\\" and s[i + 1:i + 2] == "\\":
            out.append(0x5C)
            i += 2
        elif s[i] == "\\" and re.match(r"[0-9A-Fa-f]{2}", s[i + 1:i + 3]):
            out.append(int(s[i + 1:i + 3], 16))
            i += 3
        else:
            out += s[i].encode("latin-1", "replace")
            i += 1
    return bytes(out)


def fs_table(files):
    """the embed.FS table for {name: bytes}: files and parent directories in (dir, elem) order"""
    ent = {}
    for n, d in files.items():
        ent[n] = d
        parts = n.split("/")
        for k in range(1, len(parts)):
            ent["/".join(parts[:k]) + "/"] = None

    def key(n):
        n = n[:-1] if n.endswith("/") else n
        return (n.rsplit("/", 1)[0], n.rsplit("/", 1)[1]) if "/" in n else (".", n)
    return [(n, ent[n]) for n in sorted(ent, key=lambda n: tuple(x.encode() for x in key(n)))]


def ir_embed(ck):
    """compile a package with several go:embed variables of the same file through the real cl.NewPackage
    (go test -overlay in /repo/cl, LLVM linked) and return (status, findings, detail)"""
    rng = ck.rng.__class__(ck.seed * 131 + 16)
    blob = lambda tag: tag + "".join(rng.choice(["a", "b", "z", " ", "\"", "\\", "\n", "\u00e9", "%", "\x01"]) for _ in range(rng.randint(2, 12)))
    files = {"data/g.txt": blob("G"), "data/o.txt": blob("O")}
    inp, outp = os.path.join(ck.work, "ir_in.json"), os.path.join(ck.work, "ir_out.json")
    json.dump({"files": files, "src": IR_SRC}, open(inp, "w"))
    env = e2e.tc_env(os.path.join(ck.work, "xdg_ir"), {"VERIF_IN": inp, "VERIF_OUT": outp})
    rc, log = ck.go_test_overlay("cl", {"zz_verif_test.go": os.path.join(H, "clembed_verif_test.go")}, tags="llvm14,verif", env=env,
                                 extra_overlay={os.path.join(vlib.REPO, "ssa", "z_verif_opaque.go"):
                                                os.path.join(vlib.ROOT, "toolchain", "src", "z_verif_opaque.go")}, timeout=1500)
    if rc != 0 or not os.path.exists(outp):
        return "harness-failed", [], log[-2000:]
    ir = json.load(open(outp))["ir"]
    want = {k: v.encode("utf-8") for k, v in files.items()}
    consts = {m.group(1): (m.group(2), ll_unescape(m.group(4)))
              for m in re.finditer(r'^@(\d+) = private (?:unnamed_addr )?(global|constant) \[(\d+) x i8\] c"(.*)"(?:, align \d+)?$', ir, re.M)}
    findings, backing = [], {}
    for var, fname in IR_BYTES.items():
        m = re.search(r'^@foo\.%s = global %%"[^"]*\.Slice" \{ ptr @(\d+), i64 (\d+), i64 (\d+) \}' % re.escape(var), ir, re.M)
        if not m:
            findings.append(("embed-ir-bytes-differ", "no constant slice initialiser for []byte variable %s" % var))
            continue
        sym, ln, cp = m.group(1), int(m.group(2)), int(m.group(3))
        backing[var] = sym
        kind, data = consts.get(sym, ("?", b""))
        if data != want[fname] or ln != len(data) or cp != len(data):
            findings.append(("embed-ir-bytes-differ", "[]byte variable %s: %r len %d cap %d, file %s holds %r" % (var, data, ln, cp, fname, want[fname])))
        if kind != "global":
            findings.append(("embed-ir-bytes-not-writable", "backing store @%s of []byte variable %s is %s" % (sym, var, kind)))
        uses = len(re.findall(r"@%s\b" % sym, ir)) - 1          # minus its definition
        if uses != 1:
            findings.append(("embed-bytes-vars-share-backing-array",
                             "backing store @%s of []byte variable %s is referenced %d times in the module" % (sym, var, uses)))
    vs = sorted(backing)
    for i in range(len(vs)):
        for j in range(i + 1, len(vs)):
            if backing[vs[i]] == backing[vs[j]]:
                findings.append(("embed-bytes-vars-share-backing-array",
                                 "[]byte variables %s and %s (file %s) are initialised with the same backing store @%s"
                                 % (vs[i], vs[j], IR_BYTES[vs[i]], backing[vs[i]])))
    m = re.search(r'^@foo\.s = global %"[^"]*\.String" \{ ptr @(\d+), i64 (\d+) \}', ir, re.M)
    if not m or consts.get(m.group(1), ("", b""))[1] != want["data/g.txt"] or int(m.group(2)) != len(want["data/g.txt"]):
        findings.append(("embed-ir-string-differs", "string variable s does not hold the bytes of data/g.txt"))
    # the embed.FS table stored by foo.init: (name, data) pairs in order
    stores = re.findall(r'store %"[^"]*\.String" (zeroinitializer|\{ ptr @(\d+), i64 (\d+) \}), ptr %\d+', ir)
    vals = [None if z == "zeroinitializer" else consts.get(sym, ("", b""))[1] for z, sym, _ in stores]
    table = [(vals[i].decode("utf-8", "replace") if vals[i] is not None else "", vals[i + 1]) for i in range(0, len(vals) - 1, 2)]
    exp = fs_table(want)
    if table != exp:
        findings.append(("embed-ir-fs-table-differs", "embed.FS table in the IR %r, expected %r" % (table, exp)))
    return "ok", findings, {"backing": backing, "files": {k: v.decode("utf-8") for k, v in want.items()}}


def run(ck):
    ck.trusted = ["Coq 8.16.1 kernel (coqc, vm_compute)", "Go overlay harness props/C16/harness/embed_verif_test.go",
                  "hand-written model coq/theories/C16/Model.v tied by correspondence",
                  "reference toolchain go1.24 `go list -e -json` (oracle for what the go tool embeds / rejects)",
                  "the real embed.FS implementation run over the table BuildFSEntries returns"]
    ck.assumptions = ["upstream path.Match, filepath.Glob, fs.ValidPath, module.CheckFilePath, strconv.Unquote, strings.TrimSpace are modelled, "
                      "not verified: the model's copies are validated by the correspondence only",
                      "unicode.IsLetter is a table over the blocks the generators use (compared on the whole generator alphabet)",
                      "file system: names unique per directory, no permission errors, no concurrent modification; "
                      "a symbolic link is modelled by what Stat sees through it"]
    ck.coq_build("C16")
    ck.coq_props("LLGoV.C16.Props", "theories/C16/Props.v")

    e2e_pool = ThreadPoolExecutor(2)
    ir_future = e2e_pool.submit(ir_embed, ck)
    e2e_future = e2e_pool.submit(e2e_embed, ck) if ck.tier == "thorough" or os.environ.get("VERIF_C16_E2E") else None

    n, nd = {"quick": (500, 400), "thorough": (9000, 6000)}.get(ck.tier, (500, 400))
    nm = {"quick": 60, "thorough": 600}.get(ck.tier, 60)
    trees = os.path.join(ck.work, "trees")
    os.makedirs(trees, exist_ok=True)
    out = os.path.join(ck.work, "embed.jsonl")
    rc, log = ck.go_test_overlay("internal/goembed", {"zz_verif_test.go": os.path.join(H, "embed_verif_test.go")},
                                 env={"VERIF_OUT": out, "VERIF_N": str(n), "VERIF_ND": str(nd), "VERIF_NM": str(nm), "VERIF_TREES": trees})
    if rc != 0 or not os.path.exists(out):
        ck.correspondence_broken("harness:internal/goembed", log[-2500:])
        return ck.finish()
    recs = collections.defaultdict(list)
    for line in open(out):
        r = json.loads(line)
        recs[r["kind"]].append(r)

    for v in recs["viol"]:
        ck.violation(v["key"], v.get("what", ""), v)

    # ---------- the reference toolchain on the same directories ----------
    golist = {}
    for rootname, sub in (("plain", "plain/m"), ("meta", "w[1]x/m")):
        rc, res, raw = go_list(os.path.join(trees, sub))
        if not res:
            ck.correspondence_broken("go-list:" + rootname, raw[-1500:])
        golist[rootname] = res

    classes = collections.Counter()
    agree3 = 0
    for r in recs["res"]:
        g = golist.get(r["root"], {}).get(r["id"])
        if g is None:
            ck.correspondence_broken("go-list-missing", r["id"])
            continue
        pats = [bytes.fromhex(p) for p in r.get("patshex", [])]
        gerr = (g.get("Error") or {}).get("Err")
        gc = go_class(gerr)
        lfiles = [f["n"] for f in r.get("files", [])]
        gfiles = g.get("EmbedFiles") or []
        # sanity of the harness itself: the go tool read the patterns we meant
        gp = sorted(p.encode("utf-8", "surrogateescape") for p in (g.get("EmbedPatterns") or []))
        want = sorted(set(pats))
        if gp != want and all(_valid_utf8(p) for p in want):
            ck.correspondence_broken("go-list-patterns", {"id": r["id"], "want": [p.hex() for p in want], "got": [p.hex() for p in gp]})
            continue
        lc = r["eclass"]
        rep = {"id": r["id"], "root": r["root"], "patterns": [p.decode("utf-8", "replace") for p in pats], "tree": r["tree"],
               "llgo": {"err": r.get("err"), "files": lfiles}, "go": {"err": gerr, "files": gfiles}}
        classes["res:llgo=%d,go=%d" % (lc, gc)] += 1
        if lc == 0 and gc == 0:
            if lfiles == gfiles:
                agree3 += 1
            else:
                ck.violation("embed-files-differ", "goembed.ResolvePatterns and the go tool embed different file sets", rep)
        elif lc == 0 and gc != 0:
            key = "embed-accepts-what-go-rejects"
            if gc == 9 and any(not safe_first(f) for f in lfiles):
                key = "embed-unsafe-first-byte-accepted"
            elif gc == 10 and len(set(f.casefold() for f in lfiles + ["x.go"])) < len(lfiles + ["x.go"]):
                key = "embed-casefold-collision-accepted"
            ck.violation(key, "the go tool rejects the directive (%s) but goembed.ResolvePatterns embeds %d file(s)" % (gerr, len(lfiles)), rep)
        elif lc != 0 and gc == 0:
            key = "embed-rejects-what-go-embeds"
            ck.violation(key, "goembed.ResolvePatterns fails (%s) but the go tool embeds %d file(s)" % (r.get("err"), len(gfiles)), rep)
        else:
            # both reject; with one pattern the reason must be the same (the go tool checks
            # its sorted pattern list, so with several patterns another one may fail first)
            if len(want) == 1 and gc != lc and gc != 99:
                ck.violation("embed-error-class-differs", "both reject, for different reasons: llgo %r, go %r" % (r.get("err"), gerr), rep)
            else:
                agree3 += 1

    # ---------- the directive stream: ParsePatterns vs go/build (via go list) ----------
    for r in recs["dir"]:
        g = golist["plain"].get(r["id"])
        if g is None:
            ck.correspondence_broken("go-list-missing", r["id"])
            continue
        text = bytes.fromhex(r.get("text", ""))
        gp = sorted(p.encode("utf-8", "surrogateescape") for p in (g.get("EmbedPatterns") or []))
        ref = sorted(set(bytes.fromhex(p) for p in r.get("refpats", []))) if r.get("refdir") and not r.get("referr") else []
        if ref != gp:
            ck.correspondence_broken("reference-parser-copy", {"text": text.decode("utf-8", "replace"), "ref": [p.hex() for p in ref], "go": [p.hex() for p in gp]})
            continue
        has, lerr = r.get("hasdir", False), r["eclass"] != 0
        lp = sorted(set(bytes.fromhex(p) for p in r.get("patshex", [])))
        l_acc = has and not lerr                       # llgo embeds according to lp
        g_acc = bool(gp)                               # the go tool embeds according to gp
        classes["dir:llgo=%s,go=%s" % ("acc" if l_acc else ("rej" if has else "none"), "acc" if g_acc else "no")] += 1
        rep = {"id": r["id"], "text": text.decode("utf-8", "replace"), "text_hex": r.get("text", ""),
               "llgo": {"directive": has, "err": r.get("err"), "patterns": [p.decode("utf-8", "replace") for p in lp]},
               "go": {"patterns": [p.decode("utf-8", "replace") for p in gp], "refdir": r.get("refdir", False), "referr": r.get("referr", 0)}}
        if l_acc == g_acc and (not l_acc or lp == gp):
            agree3 += 1
            continue
        if not g_acc and not l_acc:
            agree3 += 1
            continue
        ck.violation("embed-directive-parse-differs", "ParsePatterns %s, the go tool %s" % (
            "reads %r" % rep["llgo"]["patterns"] if l_acc else ("rejects the line" if has else "sees no directive"),
            "reads %r" % rep["go"]["patterns"] if g_acc else "does not embed"), rep)

    # ---------- multi-file packages: LoadDirectives vs `go build` ----------
    rc, bout = vlib.sh(["go", "build", "-gcflags=-e", "./..."], cwd=os.path.join(trees, "mf", "m"), env=vlib.goenv(), timeout=900)
    blocks, cur = {}, None
    for line in bout.splitlines():
        m = re.match(r"# vm/(mf\d+)", line)
        if m:
            cur = m.group(1)
            blocks[cur] = []
        elif cur:
            blocks[cur].append(line.strip())
    if recs["mf"] and rc != 0 and not blocks:
        ck.correspondence_broken("go-build:mf", bout[-1500:])
    for r in recs["mf"]:
        gmsgs = blocks.get(r["id"])
        l_rej, g_rej = r["eclass"] != 0, gmsgs is not None
        classes["mf:llgo=%d,go=%s" % (r["eclass"], "rej" if g_rej else "ok")] += 1
        if l_rej == g_rej:
            agree3 += 1
            continue
        rep = {"id": r["id"], "order": r["order"], "files": [{"name": f["name"], "imports_embed": f["imp"], "decls": f["decls"]} for f in r["mfiles"]],
               "llgo": {"err": r.get("err"), "vars": [v["name"] for v in r.get("vars", [])]}, "go_build": gmsgs}
        if g_rej and any("only allowed in Go files that import" in m for m in gmsgs):
            ck.violation("embed-directive-without-import-accepted",
                         "go build rejects (%s) but LoadDirectives accepts the package" % gmsgs[0], rep)
        elif g_rej:
            ck.violation("embed-loaddirectives-accepts-what-go-rejects", "go build: %s; LoadDirectives accepts" % gmsgs[0], rep)
        else:
            ck.violation("embed-loaddirectives-rejects-what-go-builds", "LoadDirectives: %s; go build accepts the package" % r.get("err"), rep)

    # ---------- model vs implementation, evaluated inside Coq ----------
    hdr = "From LLGoV Require Import C16.Model.\nLocal Open Scope N_scope.\n"
    total = 0

    jobs = []

    def compare(kind, terms, model, eqb, raw, shard=400):
        nonlocal total
        total += len(terms)
        if terms:
            jobs.append((kind, terms, model, eqb, raw, shard))

    def run_job(j):
        kind, terms, model, eqb, raw, shard = j
        return kind, raw, ck.coq_mismatches(hdr, terms, model, eqb, "c16_" + kind, shard=shard)

    res = recs["res"]
    compare("resolve",
            ["((%s, %s), %s)" % (tree_term(r["tree"]), coq_list([hb(p) for p in r.get("patshex", [])]),
                                 ("(@Err (list (str * str)) %d)" % r["eclass"]) if r["eclass"] else "Ok " + files_term(r.get("files", [])))
             for r in res],
            "(fun x => resolve (fst x) (snd x))", "res_eqb", res, shard=50)
    dr = recs["dir"]
    compare("parse_comment",
            ["(%s, %s)" % (hb(r.get("text", "")), "DNone" if not r.get("hasdir") else
                           ("DErr" if r["eclass"] else "DPats " + coq_list([hb(p) for p in r.get("patshex", [])])))
             for r in dr],
            "parse_comment", "dres_eqb", dr, shard=50)
    fsr = recs["fs"]
    compare("fs_entries", ["(%s, %s)" % (files_term(r.get("in", [])), entries_term(r.get("files", []))) for r in fsr],
            "fs_entries", "entries_eqb", fsr, shard=60)
    mfr = recs["mf"]
    compare("load_directives",
            ["((%s, %s), %s)" % (tree_term(r["tree"]), coq_list([gofile_term(f) for f in r["mfiles"]]),
                                 ("(@Err varmap %d)" % r["eclass"]) if r["eclass"] else
                                 "(@Ok varmap %s)" % ("(@nil (str * list (str * str)))" if not r.get("vars") else
                                                      coq_list(["(%s, %s)" % (sb(v["name"]), files_term(v["files"]) if v["files"] else "(@nil (str * str))")
                                                                for v in r["vars"]])))
             for r in mfr],
            "(fun x => load_directives (fst x) (snd x))", "vres_eqb", mfr, shard=20)
    for lr in recs["letters"]:
        pairs = list(zip(lr["runes"], lr["letter"]))
        compare("is_letter", ["(%d, %s)" % (c, "true" if b else "false") for c, b in pairs], "is_letter", "Bool.eqb",
                [{"rune": c, "letter": b} for c, b in pairs])
    bd = recs["bad"]
    compare("bad_name", ["(%s, %s)" % (hb(r.get("text", "")), "true" if r["eclass"] else "false") for r in bd], "bad_name", "Bool.eqb", bd)
    vd = recs["valid"]
    compare("valid_pattern", ["(%s, %s)" % (hb(r.get("text", "")), "true" if r["eclass"] else "false") for r in vd], "valid_pattern", "Bool.eqb", vd)
    with ThreadPoolExecutor(6) as ex:
        for kind, raw, bad in ex.map(run_job, jobs):
            if bad:
                first = raw[bad[0]]
                first = {k: first[k] for k in first if k != "tree"} | ({"tree": first["tree"]} if "tree" in first else {})
                ck.correspondence_broken("C16.Model/" + kind, {"n_mismatch": len(bad), "first": first})

    # ---------- end to end: every []byte variable has its own backing store ----------
    istatus, ifind, idetail = ir_future.result()
    classes["ir:" + istatus] += 1
    if istatus != "ok":
        ck.correspondence_broken("cl-embed-ir:" + istatus, idetail)
    else:
        total += len(IR_BYTES) + 2
        for key, what in ifind:
            ck.violation(key, what, {"source": IR_SRC, "detail": idetail, "what": what})
    status, ll_out, go_out, elog = e2e_future.result() if e2e_future else ("skipped", "", "", "")
    e2e_pool.shutdown()
    classes["e2e:" + status] += 1
    if status == "skipped":
        pass
    elif status != "ran":
        ck.correspondence_broken("e2e-embed:" + status, elog[-2000:])
    else:
        total += 1
        keep = lambda o: [l for l in o.splitlines() if l.split(" ")[0] in (
            "init", "after-write", "distinct", "fs", "fs-again", "fs-entry", "fsall-entry", "fs-hidden-absent", "fsall-hidden",
            "sub-init", "sub-after", "end")]
        lo, go_ = keep(ll_out), keep(go_out)
        if lo != go_:
            rep = {"llgo": lo, "go": go_, "program": "props/C16/check.py E2E_MAIN/E2E_SUB", "raw_llgo": ll_out[-1500:]}
            shared = any(l.startswith("distinct") and "false" in l for l in lo) or any(l.startswith("sub-after") and l.endswith("false") for l in lo)
            if shared:
                ck.violation("embed-bytes-vars-share-backing-array",
                             "two []byte go:embed variables of one file share their backing array in the llgo-built program (a write through one shows in the other)", rep)
            else:
                ck.violation("embed-e2e-output-differs", "program with go:embed string/[]byte/FS variables prints differently when built by llgo and by go", rep)
        else:
            agree3 += 1

    # the refuted-theorem witnesses, replayed on the real code by the harness (kind=witness)
    for w in recs["witness"]:
        classes["witness:" + w["class"]] += 1

    for c in recs["classes"]:
        for kv in c["what"].split():
            k, v = kv.rsplit("=", 1)
            classes[k] = int(v)
    distinct = len(set(json.dumps([r["tree"], r.get("patshex")]) for r in recs["res"])) + \
        len(set(r.get("text", "") for r in dr)) + len(set(json.dumps(r.get("in")) for r in fsr))
    samples = []
    for k in ("res", "dir", "fs"):
        if recs[k]:
            r = recs[k][len(recs[k]) // 3]
            samples.append({k: {kk: r[kk] for kk in r if kk in ("id", "patshex", "files", "err", "text", "in")}})
    ck.cov["samples"] = samples
    ck.add_cov(evaluations=total, nontrivial=distinct, classes=dict(classes))
    ck.cov["three_way_agreements"] = agree3
    ck.cov["rule"] = ("generated package directories (depth<=4; plain, hidden, underscore, VCS, Windows-reserved, punctuation, non-ASCII names; "
                      "empty dirs, symlinks to files/dirs/nothing, fifos, nested go.mod) x 1-3 patterns (literal paths of the tree, glob mutations of them, "
                      "a raw pool of boundary/invalid patterns, all:, duplicates) rendered bare/back-quoted/double-quoted; each case is run on the real "
                      "ResolvePatterns/LoadDirectives/BuildFSEntries, on the Coq model (vm_compute) and through `go list -e -json`; plus a raw //go:embed "
                      "comment stream (ParsePatterns vs model vs go/build) and synthetic FS tables read back through the real embed.FS")
    return ck.finish()


def _valid_utf8(b):
    try:
        b.decode("utf-8")
        return "\ufffd" not in b.decode("utf-8")
    except UnicodeDecodeError:
        return False
