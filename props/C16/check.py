"""C16 - go:embed delivers exactly the files and bytes the go tool would embed.

Three-way correspondence on generated package directories:
  Coq model (coq/theories/C16/Model.v)  vs  the real internal/goembed functions (go test -overlay)
  vs  the reference toolchain (`go list -e -json ./...` on the same directories).
"""
import json, os, re, collections
from concurrent.futures import ThreadPoolExecutor
import vlib
from vlib import coq_list

H = os.path.join(os.path.dirname(os.path.abspath(__file__)), "harness")


def nb(b):
    if not b:
        return "(@nil N)"          # typed: a shard may consist of this one term
    return "[" + ";".join(str(x) for x in b) + "]%N"


def hb(h):
    return nb(bytes.fromhex(h))


def sb(s):
    return nb(s.encode("utf-8"))


def tree_term(v):
    k = v["k"]
    if k == "f":
        return "File %s" % hb(v.get("d", ""))
    if k == "d":
        return "Dir " + coq_list(["(%s, %s)" % (sb(e["n"]), tree_term(e["v"])) for e in v.get("e", [])])
    if k == "l":
        return "Link (Some (%s))" % tree_term(v["t"]) if v.get("t") else "Link None"
    return "Irreg"


def files_term(fs):
    return coq_list(["(%s, %s)" % (sb(f["n"]), hb(f["d"])) for f in fs])


def entries_term(fs):
    return coq_list(["(%s, %s)" % (sb(f["n"]), "None" if f["d"] == "-" else "Some " + hb(f["d"])) for f in fs])


GO_CLASSES = [("invalid pattern syntax", 1), ("in different module", 2), (": invalid name ", 3),
              (": in invalid directory ", 4), ("cannot embed irregular", 5), ("contains no embeddable files", 6),
              ("no matching files found", 7), ("in non-directory", 8), ("invalid input file name", 9),
              ("case-insensitive file name collision", 10)]


def go_class(err):
    if not err:
        return 0
    for k, v in GO_CLASSES:
        if k in err:
            return v
    return 99


def go_list(root):
    """{package dir name: go list record} for every package below the module root"""
    rc, out = vlib.sh(["go", "list", "-e", "-json=ImportPath,EmbedPatterns,EmbedFiles,Error", "./..."],
                      cwd=root, env=vlib.goenv(), timeout=900)
    res, dec, i = {}, json.JSONDecoder(), 0
    start = out.find("{")
    if start < 0:
        return rc, res, out
    out = out[start:]
    try:
        while i < len(out):
            while i < len(out) and out[i].isspace():
                i += 1
            if i >= len(out):
                break
            o, i = dec.raw_decode(out, i)
            res[o["ImportPath"].split("/")[-1]] = o
    except ValueError:
        pass
    return rc, res, out


def safe_first(name):
    c = name.encode("utf-8")[:1]
    return bool(c) and (c.isalnum() and c[0] < 128 or c in b"._/" or c[0] >= 128)


def run(ck):
    ck.trusted = ["Coq 8.16.1 kernel (coqc, vm_compute)", "Go overlay harness props/C16/harness/embed_verif_test.go",
                  "hand-written model coq/theories/C16/Model.v tied by correspondence",
                  "reference toolchain go1.24 `go list -e -json` (oracle for what the go tool embeds / rejects)",
                  "the real embed.FS implementation run over the table BuildFSEntries returns"]
    ck.assumptions = ["upstream path.Match, filepath.Glob, fs.ValidPath, module.CheckFilePath, strconv.Unquote, strings.TrimSpace are modelled, "
                      "not verified: the model's copies are validated by the correspondence only",
                      "unicode.IsLetter is a table over the blocks the generators use (compared on the whole generator alphabet)",
                      "file system: names unique per directory, no permission errors, no concurrent modification; "
                      "a symbolic link is modelled by what Stat sees through it"]
    ck.coq_build("C16")
    ck.coq_props("LLGoV.C16.Props", "theories/C16/Props.v")

    n, nd = {"quick": (500, 400), "thorough": (9000, 6000)}.get(ck.tier, (500, 400))
    trees = os.path.join(ck.work, "trees")
    os.makedirs(trees, exist_ok=True)
    out = os.path.join(ck.work, "embed.jsonl")
    rc, log = ck.go_test_overlay("internal/goembed", {"zz_verif_test.go": os.path.join(H, "embed_verif_test.go")},
                                 env={"VERIF_OUT": out, "VERIF_N": str(n), "VERIF_ND": str(nd), "VERIF_TREES": trees})
    if rc != 0 or not os.path.exists(out):
        ck.correspondence_broken("harness:internal/goembed", log[-2500:])
        return ck.finish()
    recs = collections.defaultdict(list)
    for line in open(out):
        r = json.loads(line)
        recs[r["kind"]].append(r)

    for v in recs["viol"]:
        ck.violation(v["key"], v.get("what", ""), v)

    # ---------- the reference toolchain on the same directories ----------
    golist = {}
    for rootname, sub in (("plain", "plain/m"), ("meta", "w[1]x/m")):
        rc, res, raw = go_list(os.path.join(trees, sub))
        if not res:
            ck.correspondence_broken("go-list:" + rootname, raw[-1500:])
        golist[rootname] = res

    classes = collections.Counter()
    agree3 = 0
    for r in recs["res"]:
        g = golist.get(r["root"], {}).get(r["id"])
        if g is None:
            ck.correspondence_broken("go-list-missing", r["id"])
            continue
        pats = [bytes.fromhex(p) for p in r.get("patshex", [])]
        gerr = (g.get("Error") or {}).get("Err")
        gc = go_class(gerr)
        lfiles = [f["n"] for f in r.get("files", [])]
        gfiles = g.get("EmbedFiles") or []
        # sanity of the harness itself: the go tool read the patterns we meant
        gp = sorted(p.encode("utf-8", "surrogateescape") for p in (g.get("EmbedPatterns") or []))
        want = sorted(set(pats))
        if gp != want and all(_valid_utf8(p) for p in want):
            ck.correspondence_broken("go-list-patterns", {"id": r["id"], "want": [p.hex() for p in want], "got": [p.hex() for p in gp]})
            continue
        lc = r["eclass"]
        rep = {"id": r["id"], "root": r["root"], "patterns": [p.decode("utf-8", "replace") for p in pats], "tree": r["tree"],
               "llgo": {"err": r.get("err"), "files": lfiles}, "go": {"err": gerr, "files": gfiles}}
        classes["res:llgo=%d,go=%d" % (lc, gc)] += 1
        if lc == 0 and gc == 0:
            if lfiles == gfiles:
                agree3 += 1
            else:
                ck.violation("embed-files-differ", "goembed.ResolvePatterns and the go tool embed different file sets", rep)
        elif lc == 0 and gc != 0:
            key = "embed-accepts-what-go-rejects"
            if gc == 9 and any(not safe_first(f) for f in lfiles):
                key = "embed-unsafe-first-byte-accepted"
            elif gc == 10 and len(set(f.casefold() for f in lfiles + ["x.go"])) < len(lfiles + ["x.go"]):
                key = "embed-casefold-collision-accepted"
            ck.violation(key, "the go tool rejects the directive (%s) but goembed.ResolvePatterns embeds %d file(s)" % (gerr, len(lfiles)), rep)
        elif lc != 0 and gc == 0:
            key = "embed-rejects-what-go-embeds"
            ck.violation(key, "goembed.ResolvePatterns fails (%s) but the go tool embeds %d file(s)" % (r.get("err"), len(gfiles)), rep)
        else:
            # both reject; with one pattern the reason must be the same (the go tool checks
            # its sorted pattern list, so with several patterns another one may fail first)
            if len(want) == 1 and gc != lc and gc != 99:
                ck.violation("embed-error-class-differs", "both reject, for different reasons: llgo %r, go %r" % (r.get("err"), gerr), rep)
            else:
                agree3 += 1

    # ---------- the directive stream: ParsePatterns vs go/build (via go list) ----------
    for r in recs["dir"]:
        g = golist["plain"].get(r["id"])
        if g is None:
            ck.correspondence_broken("go-list-missing", r["id"])
            continue
        text = bytes.fromhex(r.get("text", ""))
        gp = sorted(p.encode("utf-8", "surrogateescape") for p in (g.get("EmbedPatterns") or []))
        ref = sorted(set(bytes.fromhex(p) for p in r.get("refpats", []))) if r.get("refdir") and not r.get("referr") else []
        if ref != gp:
            ck.correspondence_broken("reference-parser-copy", {"text": text.decode("utf-8", "replace"), "ref": [p.hex() for p in ref], "go": [p.hex() for p in gp]})
            continue
        has, lerr = r.get("hasdir", False), r["eclass"] != 0
        lp = sorted(set(bytes.fromhex(p) for p in r.get("patshex", [])))
        l_acc = has and not lerr                       # llgo embeds according to lp
        g_acc = bool(gp)                               # the go tool embeds according to gp
        classes["dir:llgo=%s,go=%s" % ("acc" if l_acc else ("rej" if has else "none"), "acc" if g_acc else "no")] += 1
        rep = {"id": r["id"], "text": text.decode("utf-8", "replace"), "text_hex": r.get("text", ""),
               "llgo": {"directive": has, "err": r.get("err"), "patterns": [p.decode("utf-8", "replace") for p in lp]},
               "go": {"patterns": [p.decode("utf-8", "replace") for p in gp], "refdir": r.get("refdir", False), "referr": r.get("referr", 0)}}
        if l_acc == g_acc and (not l_acc or lp == gp):
            agree3 += 1
            continue
        if not g_acc and not l_acc:
            agree3 += 1
            continue
        ck.violation("embed-directive-parse-differs", "ParsePatterns %s, the go tool %s" % (
            "reads %r" % rep["llgo"]["patterns"] if l_acc else ("rejects the line" if has else "sees no directive"),
            "reads %r" % rep["go"]["patterns"] if g_acc else "does not embed"), rep)

    # ---------- model vs implementation, evaluated inside Coq ----------
    hdr = "From LLGoV Require Import C16.Model.\nLocal Open Scope N_scope.\n"
    total = 0

    jobs = []

    def compare(kind, terms, model, eqb, raw, shard=400):
        nonlocal total
        total += len(terms)
        if terms:
            jobs.append((kind, terms, model, eqb, raw, shard))

    def run_job(j):
        kind, terms, model, eqb, raw, shard = j
        return kind, raw, ck.coq_mismatches(hdr, terms, model, eqb, "c16_" + kind, shard=shard)

    res = recs["res"]
    compare("resolve",
            ["((%s, %s), %s)" % (tree_term(r["tree"]), coq_list([hb(p) for p in r.get("patshex", [])]),
                                 ("(@Err (list (str * str)) %d)" % r["eclass"]) if r["eclass"] else "Ok " + files_term(r.get("files", [])))
             for r in res],
            "(fun x => resolve (fst x) (snd x))", "res_eqb", res, shard=50)
    dr = recs["dir"]
    compare("parse_comment",
            ["(%s, %s)" % (hb(r.get("text", "")), "DNone" if not r.get("hasdir") else
                           ("DErr" if r["eclass"] else "DPats " + coq_list([hb(p) for p in r.get("patshex", [])])))
             for r in dr],
            "parse_comment", "dres_eqb", dr, shard=50)
    fsr = recs["fs"]
    compare("fs_entries", ["(%s, %s)" % (files_term(r.get("in", [])), entries_term(r.get("files", []))) for r in fsr],
            "fs_entries", "entries_eqb", fsr, shard=60)
    for lr in recs["letters"]:
        pairs = list(zip(lr["runes"], lr["letter"]))
        compare("is_letter", ["(%d, %s)" % (c, "true" if b else "false") for c, b in pairs], "is_letter", "Bool.eqb",
                [{"rune": c, "letter": b} for c, b in pairs])
    bd = recs["bad"]
    compare("bad_name", ["(%s, %s)" % (hb(r.get("text", "")), "true" if r["eclass"] else "false") for r in bd], "bad_name", "Bool.eqb", bd)
    vd = recs["valid"]
    compare("valid_pattern", ["(%s, %s)" % (hb(r.get("text", "")), "true" if r["eclass"] else "false") for r in vd], "valid_pattern", "Bool.eqb", vd)
    with ThreadPoolExecutor(6) as ex:
        for kind, raw, bad in ex.map(run_job, jobs):
            if bad:
                first = raw[bad[0]]
                first = {k: first[k] for k in first if k != "tree"} | ({"tree": first["tree"]} if "tree" in first else {})
                ck.correspondence_broken("C16.Model/" + kind, {"n_mismatch": len(bad), "first": first})

    # the refuted-theorem witnesses, replayed on the real code by the harness (kind=witness)
    for w in recs["witness"]:
        classes["witness:" + w["class"]] += 1

    for c in recs["classes"]:
        for kv in c["what"].split():
            k, v = kv.rsplit("=", 1)
            classes[k] = int(v)
    distinct = len(set(json.dumps([r["tree"], r.get("patshex")]) for r in recs["res"])) + \
        len(set(r.get("text", "") for r in dr)) + len(set(json.dumps(r.get("in")) for r in fsr))
    samples = []
    for k in ("res", "dir", "fs"):
        if recs[k]:
            r = recs[k][len(recs[k]) // 3]
            samples.append({k: {kk: r[kk] for kk in r if kk in ("id", "patshex", "files", "err", "text", "in")}})
    ck.cov["samples"] = samples
    ck.add_cov(evaluations=total, nontrivial=distinct, classes=dict(classes))
    ck.cov["three_way_agreements"] = agree3
    ck.cov["rule"] = ("generated package directories (depth<=4; plain, hidden, underscore, VCS, Windows-reserved, punctuation, non-ASCII names; "
                      "empty dirs, symlinks to files/dirs/nothing, fifos, nested go.mod) x 1-3 patterns (literal paths of the tree, glob mutations of them, "
                      "a raw pool of boundary/invalid patterns, all:, duplicates) rendered bare/back-quoted/double-quoted; each case is run on the real "
                      "ResolvePatterns/LoadDirectives/BuildFSEntries, on the Coq model (vm_compute) and through `go list -e -json`; plus a raw //go:embed "
                      "comment stream (ParsePatterns vs model vs go/build) and synthetic FS tables read back through the real embed.FS")
    return ck.finish()


def _valid_utf8(b):
    try:
        b.decode("utf-8")
        return "\ufffd" not in b.decode("utf-8")
    except UnicodeDecodeError:
        return False
