#!/bin/bash
# re-run goplus/llgo's own pinned test suite (command of /root/.vp/BASELINE.json) on /repo's working tree,
# hooks off, and compare with the stable_pass list:  tools/baseline_check.sh  -> "stable_pass N passed now M missing K"
out=${1:-/var/tmp/baseline_now.json}
: > "$out"
for m in $(cat /w/out/gomods.txt); do
  MF=$(cd /repo/$m && . /w/out/goenv.sh && gomodflag)
  (cd /repo/$m && . /w/out/goenv.sh && go test $MF -json -vet=off -count=1 -timeout 25m ./... >> "$out" 2>/dev/null)
done
python3 - "$out" <<'P'
import json, sys
base = json.load(open('/root/.vp/BASELINE.json'))
want = set(base['stable_pass'])
passed = set()
for l in open(sys.argv[1], errors='replace'):
    try:
        d = json.loads(l)
    except Exception:
        continue
    if d.get('Action') == 'pass' and d.get('Test'):
        passed.add(d['Package'] + '::' + d['Test'])
missing = sorted(want - passed)
print("stable_pass", len(want), "passed now", len(want & passed), "missing", len(missing))
for m in missing[:40]:
    print("  MISSING", m)
P
