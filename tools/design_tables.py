#!/usr/bin/env python3
"""Regenerates the generated tables of DESIGN.md (between the marker comments) from known_findings.txt and seeded/*/meta.json."""
import json, os, re, glob, collections
ROOT = os.path.dirname(os.path.dirname(os.path.abspath(__file__)))
kf = open(os.path.join(ROOT, "known_findings.txt")).read().splitlines()
fixed = [re.match(r"fixed:\s+property=(\S+)\s+(\S+)\s+(.*)", l) for l in kf]
fixed = [m.groups() for m in fixed if m]
find = [re.match(r"finding:\s+property=(\S+)\s+key=(\S+)\s+(.*)", l) for l in kf]
find = [m.groups() for m in find if m]

t1 = ["| commit | prop | what failed before the repair |", "|---|---|---|"]
for p, c, w in fixed:
    t1.append("| `%s` | %s | %s |" % (c, p, w.replace("|", "\\|")[:260]))
cnt = collections.Counter(p for p, _, _ in find)
t1.append("")
t1.append("Open findings per property (%d in all): " % len(find) + ", ".join("%s %d" % (k, v) for k, v in sorted(cnt.items())) + ".")

t2 = ["| seeded change | what it breaks | confirmed | caught by our check | how (violation keys) |", "|---|---|---|---|---|"]
for mp in sorted(glob.glob(os.path.join(ROOT, "seeded", "C*", "*", "meta.json"))):
    m = json.load(open(mp))
    rel = os.path.relpath(os.path.dirname(mp), ROOT)
    keys = ", ".join(sorted({k["key"] for k in (m.get("check_keys") or [])}))[:160]
    note = m.get("note", "")
    t2.append("| `%s` | %s | %s | %s | %s%s |" % (rel, (m.get("breaks") or "").replace("|", "\\|").replace("\n", " ")[:230],
                                               "yes" if m.get("confirmed") else "no", ("n/a" if m.get("caught_by_check") is None else ("yes" if m.get("caught_by_check") else "NO")), keys, (" — " + note) if note else ""))

t3 = ["| prop | theorems in `Props.v` (all print `Closed under the global context`) | Coq lines |", "|---|---|---|"]
for d in sorted(glob.glob(os.path.join(ROOT, "coq", "theories", "C*"))):
    pid = os.path.basename(d)
    src = open(os.path.join(d, "Props.v")).read()
    names = re.findall(r"^\s*Theorem\s+([A-Za-z0-9_']+)", src, re.M)
    nl = sum(len(open(f).read().splitlines()) for f in glob.glob(os.path.join(d, "*.v")))
    t3.append("| %s | %s | %d |" % (pid, ", ".join("`%s`" % n for n in names), nl))

p = os.path.join(ROOT, "DESIGN.md")
s = open(p).read()
for name, tab in (("FIXED", t1), ("SEEDED", t2), ("THEOREMS", t3)):
    b, e = "<!-- %s-TABLE-BEGIN -->" % name, "<!-- %s-TABLE-END -->" % name
    if b in s and e in s:
        s = s[:s.index(b) + len(b)] + "\n" + "\n".join(tab) + "\n" + s[s.index(e):]
open(p, "w").write(s)
print("fixed", len(fixed), "findings", len(find), "seeded", len(t2) - 2)
