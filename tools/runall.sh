#!/bin/sh
# run every claimed check's quick tier sequentially; summary at the end
cd "$(dirname "$0")/.."
mkdir -p /tmp/runall
for id in $(python3 -c "import json;print(' '.join(c['property_id'] for c in json.load(open('MANIFEST.json'))['checks']))"); do
  s=$(date +%s)
  timeout $([ "${1:-quick}" = thorough ] && echo 5400 || echo 1500) bin/check $id --tier ${1:-quick} > /tmp/runall/$id.log 2>&1
  rc=$?
  e=$(date +%s)
  echo "$id rc=$rc $((e-s))s $(grep -c '^VIOLATION' /tmp/runall/$id.log) violations, $(grep -c '^KNOWN-FINDING' /tmp/runall/$id.log) known; $(tail -1 /tmp/runall/$id.log | cut -c1-120)"
done
