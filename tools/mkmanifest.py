#!/usr/bin/env python3
"""Regenerates MANIFEST.json from props/*/meta.json (one per claimed property) and tools/not_applicable.json."""
import json, os, glob
ROOT = os.path.dirname(os.path.dirname(os.path.abspath(__file__)))
base = json.load(open("/root/.vp/BASELINE.json"))["cmd"] if os.path.exists("/root/.vp/BASELINE.json") else ""
checks = []
for mp in sorted(glob.glob(os.path.join(ROOT, "props", "C*", "meta.json"))):
    m = json.load(open(mp))
    pid = os.path.basename(os.path.dirname(mp))
    checks.append({
        "property_id": pid,
        "quick_cmd": "bin/check %s --tier quick" % pid,
        "thorough_cmd": "bin/check %s --tier thorough" % pid,
        "evidence_file": "/verif/evidence/%s.json" % pid,
        "replay_cmd_template": "bin/check %s --replay {path}" % pid,
        "engine": "coq",
        "level_claimed": {"category": "proof", "text": m["level_text"], "design_ref": m.get("design_ref", "")},
        "level_note": m["level_note"],
        "technique": m.get("technique", "machine-checked proof in Coq 8.16.1 about a Gallina model + correspondence check of the model against /repo"),
    })
na = json.load(open(os.path.join(ROOT, "tools", "not_applicable.json")))
claimed = {c["property_id"] for c in checks}
na = [x for x in na if x["property_id"] not in claimed]
man = {
    "version": 1,
    "setup_cmd": "bin/setup",
    "hooks": {"guard": "verif",
              "enable": "no source change in /repo: checks inject *_verif_test.go files and the one-file opaque-pointer shim with `go build/test -tags llvm14,verif -overlay` (tree untouched)",
              "baseline_off_cmd": base, "source_commits": [], "add_only": True},
    "engines": [{"name": "coq", "path": "coq/", "serves_properties": sorted(claimed),
                 "kind_free_text": "Coq 8.16.1 development (models, proofs, property theorems) + python driver bin/check + Go harnesses run against /repo"}],
    "checks": checks,
    "not_applicable": na,
    "notes": "See DESIGN.md. Known findings in known_findings.txt.",
}
json.dump(man, open(os.path.join(ROOT, "MANIFEST.json"), "w"), indent=1)
print("claimed", sorted(claimed), "not claimed", [x["property_id"] for x in na])
