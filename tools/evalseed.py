#!/usr/bin/env python3
"""Evaluate one independently produced seeded change:  evalseed.py <ID> <n> [source dir]

1. scratch worktree of /repo HEAD; run the demonstration on the unchanged tree (must pass);
2. apply the patch; run the tests of the touched pure-Go packages; run the demonstration (must fail);
3. run our check for the property against the patched worktree (VERIF_REPO) and record verdict + keys;
4. store everything under /verif/seeded/<ID>/<n>/ and remove the worktree."""
import json, os, re, shutil, subprocess, sys, time

ROOT = os.path.dirname(os.path.dirname(os.path.abspath(__file__)))
pid, n = sys.argv[1], sys.argv[2]
src = sys.argv[3] if len(sys.argv) > 3 else "/tmp/seed_out/%s/%s" % (pid, n)
wt = "/tmp/evalwt_%s_%s" % (pid, n)
dst = os.path.join(ROOT, "seeded", pid, n)


def sh(cmd, timeout=3600, env=None, cwd=None):
    try:
        p = subprocess.run(cmd, shell=isinstance(cmd, str), stdout=subprocess.PIPE, stderr=subprocess.STDOUT, text=True,
                           errors="replace", timeout=timeout, env=env, cwd=cwd)
        return p.returncode, p.stdout
    except subprocess.TimeoutExpired as e:
        return 124, (e.stdout or b"").decode("utf8", "replace") if isinstance(e.stdout, bytes) else (e.stdout or "") + "[timeout]"


subprocess.run(["git", "-C", "/repo", "worktree", "remove", "--force", wt], capture_output=True)
rc, out = sh(["git", "-C", "/repo", "worktree", "add", "--detach", wt, "HEAD"])
assert rc == 0, out
rec = {"property": pid, "n": n, "repo_head": sh("git -C /repo rev-parse --short HEAD")[1].strip(), "time": time.strftime("%F %T")}
try:
    meta = json.load(open(os.path.join(src, "meta.json")))
    rec["their_meta"] = meta
    runsh = os.path.join(src, "demo", "run.sh")
    t = time.time()
    usage = open(runsh).read(800)
    um = re.search(r"usage:\s*(?:\./)?run\.sh\s+(.*)", usage)
    uargs = re.findall(r"<([^>]+)>", um.group(1)) if um else []
    needs_bin = any("binary" in a or a.strip() == "llgo" for a in uargs)

    def demo():
        if not needs_bin:
            return sh(["sh", runsh, wt])
        binp = "/tmp/evalllgo_%s_%s" % (pid, n)
        rb, ob = sh(["/tmp/llgo_tc/build_llgo.sh", wt, binp], timeout=2400)
        if rb != 0:
            return 99, "llgo build failed: " + ob[-400:]
        argv = [binp if ("binary" in a or a.strip() == "llgo") else wt for a in uargs[:2]]
        r = sh(["sh", runsh] + argv)
        try:
            os.remove(binp)
        except OSError:
            pass
        return r
    rc0, before = demo()
    rec["demo_unchanged_rc"] = rc0
    rec["demo_unchanged_tail"] = before[-600:]
    rc, out = sh(["git", "-C", wt, "apply", os.path.join(src, "patch.diff")])
    if rc != 0:
        rc, out = sh(["git", "-C", wt, "apply", "--3way", os.path.join(src, "patch.diff")])
    rec["patch_applies"] = rc == 0
    rec["patch_apply_log"] = out[-400:]
    if rc == 0:
        files = re.findall(r"^diff --git a/(\S+)", open(os.path.join(src, "patch.diff")).read(), re.M)
        rec["files"] = files
        # tests of touched pure-Go packages still pass?
        env = dict(os.environ)
        env["PATH"] = "/root/go/pkg/mod/golang.org/toolchain@v0.0.1-go1.24.0.linux-amd64/bin:" + env["PATH"]
        env.update({"GOTOOLCHAIN": "local", "GOFLAGS": "-mod=mod", "GOPROXY": "off"})
        tests = {}
        for f in files:
            d = os.path.dirname(f)
            if d in tests or not f.endswith(".go"):
                continue
            if d.startswith(("internal/", "xtool/", "ssa/abi", "cmd/internal")) and not d.startswith(("internal/build", "internal/cabi")):
                r, o = sh(["go", "test", "-vet=off", "-count=1", "./" + d], cwd=wt, env=env, timeout=900)
                tests[d] = {"rc": r, "tail": o[-300:]}
        rec["touched_package_tests"] = tests
        rc1, after = demo()
        rec["demo_changed_rc"] = rc1
        rec["demo_changed_tail"] = after[-800:]
        rec["demo_differs"] = (before != after)
        env2 = dict(os.environ, VERIF_REPO=wt)
        t = time.time()
        rc2, log = sh([os.path.join(ROOT, "bin", "check"), pid, "--tier", "quick"], env=env2, cwd=ROOT, timeout=3000)
        rec["check_rc"] = rc2
        rec["check_wall_s"] = round(time.time() - t)
        rec["check_violation_lines"] = [l for l in log.splitlines() if l.startswith("VIOLATION")][:8]
        keys = []
        for l in log.splitlines():
            m = re.match(r"VIOLATION property=\S+ replay=(\S+)", l)
            if m and os.path.exists(m.group(1)):
                try:
                    d = json.load(open(m.group(1)))
                    keys.append({"key": d["key"], "what": d["what"][:300]})
                except Exception:
                    pass
        rec["check_keys"] = keys
        rec["check_tail"] = log[-600:]
        rec["caught"] = rc2 == 1 and bool(rec["check_violation_lines"])
finally:
    subprocess.run(["git", "-C", "/repo", "worktree", "remove", "--force", wt], capture_output=True)
    # our check wrote evidence/replay for the patched tree: evidence must come from /repo itself -> restore from git
    subprocess.run(["git", "-C", ROOT, "checkout", "--", "evidence/%s.json" % pid], capture_output=True)
os.makedirs(dst, exist_ok=True)
old_note = None
if os.path.exists(os.path.join(dst, "meta.json")):
    try:
        old_note = json.load(open(os.path.join(dst, "meta.json"))).get("note")
    except Exception:
        pass
shutil.copy(os.path.join(src, "patch.diff"), os.path.join(dst, "patch.diff"))
if os.path.isdir(os.path.join(dst, "demo")):
    shutil.rmtree(os.path.join(dst, "demo"))
shutil.copytree(os.path.join(src, "demo"), os.path.join(dst, "demo"))
json.dump({"property": pid, "breaks": rec.get("their_meta", {}).get("summary", ""),
           "needs_to_manifest": rec.get("their_meta", {}).get("needs_to_manifest", ""),
           "what_we_ran": "scratch worktree of /repo HEAD %s: demo/run.sh on the unchanged tree (rc %s), git apply patch.diff, go test of touched pure-Go packages, demo/run.sh on the changed tree (rc %s, output differs: %s), then VERIF_REPO=<worktree> bin/check %s --tier quick (rc %s)" % (
               rec.get("repo_head"), rec.get("demo_unchanged_rc"), rec.get("demo_changed_rc"), rec.get("demo_differs"), pid, rec.get("check_rc")),
           "confirmed": bool(rec.get("patch_applies") and rec.get("demo_differs")),
           "caught_by_check": rec.get("caught"), "check_keys": rec.get("check_keys"), "note": old_note or "", "details": rec},
          open(os.path.join(dst, "meta.json"), "w"), indent=1)
print(pid, n, "applies", rec.get("patch_applies"), "demo unchanged rc", rec.get("demo_unchanged_rc"), "changed rc", rec.get("demo_changed_rc"),
      "differs", rec.get("demo_differs"), "check rc", rec.get("check_rc"), "caught", rec.get("caught"),
      [k["key"] for k in rec.get("check_keys", [])])
