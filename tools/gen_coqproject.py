#!/usr/bin/env python3
import os, sys
sys.path.insert(0, os.path.join(os.path.dirname(os.path.abspath(__file__)), "..", "lib"))
import vlib
T = os.path.join(vlib.COQ, "theories")
lines = ["-Q theories LLGoV"]
for sd in ["Lib"] + sorted(d for d in os.listdir(T) if d != "Lib" and os.path.isdir(os.path.join(T, d))):
    for f in vlib.coq_order(os.path.join(T, sd)):
        lines.append("theories/%s/%s" % (sd, f))
open(os.path.join(vlib.COQ, "_CoqProject"), "w").write("\n".join(lines) + "\n")
