#!/bin/sh
# Re-check every property's compiled Props module (and everything it depends on) with the independent checker coqchk;
# prints the axiom summary per property.  Output: coqchk/<ID>.txt
cd "$(dirname "$0")/.."
mkdir -p coqchk
for id in $(ls coq/theories | grep '^C'); do
  ( cd coq && timeout 7200 coqchk -silent -o -Q theories LLGoV LLGoV.$id.Props > ../coqchk/$id.txt 2>&1; echo "exit=$?" >> ../coqchk/$id.txt ) &
  while [ $(pgrep -c coqchk) -ge ${COQCHK_JOBS:-4} ]; do sleep 2; done
done
wait
grep -L "Axioms: <none>" coqchk/*.txt
